#!/bin/bash
# usage: check.sh <ID> quick|thorough        run the check of property <ID>
#        check.sh <ID> --replay <file>       re-execute a replay file
# exit 0 = property held on everything explored; 1 = VIOLATION printed;
# 2 = build / infrastructure trouble (never a VIOLATION).
set -u
ID="${1:?property id}"
MODE="${2:-quick}"
VERIF="$(cd "$(dirname "$0")" && pwd)"
REPO="${VERIF_REPO:-/repo}"
SEED="${VERIF_SEED:-1}"
case "$SEED" in ''|*[!0-9]*) SEED=1;; esac
export GOPROXY=off GOSUMDB=off GOTOOLCHAIN=local
unset GOFLAGS GOWORK || true

[ -x "$VERIF/bin/instrument" ] || { (cd "$VERIF/tools/instrument" && GOFLAGS=-mod=mod go build -o "$VERIF/bin/instrument" .) || { echo "cannot build instrumenter"; exit 2; }; }

BASE=/dev/shm
[ -d "$BASE" ] && [ -w "$BASE" ] || BASE="${TMPDIR:-/tmp}"
S="$(mktemp -d "$BASE/voresim.XXXXXX")" || { echo "no scratch dir"; exit 2; }
trap 'rm -rf "$S"' EXIT

rsync -a --exclude .git --exclude /vore "$REPO"/ "$S/repo/" || { echo "rsync failed"; exit 2; }
"$VERIF/bin/instrument" "$S/repo" "$S/inventory.json" > "$S/instrument.log" 2>&1
rc=$?
if [ $rc -ne 0 ]; then
  cat "$S/instrument.log"
  echo "INFRASTRUCTURE: instrumenter refused or failed (exit $rc); no verdict on property $ID"
  exit 2
fi

mkdir -p "$S/h" "$S/bin" "$S/out" "$S/worlds"
cp "$VERIF"/harness/*.go "$VERIF"/harness/go.mod "$S/h/"
( cd "$S/repo" && go work edit -go=1.21 -use="$VERIF/simrt" -use="$S/h" ) || { echo "go work edit failed"; exit 2; }
export GOWORK="$S/repo/go.work"

build() { # dir out flags...
  local dir="$1" out="$2"; shift 2
  ( cd "$dir" && go build "$@" -o "$out" . ) > "$S/build.log" 2>&1 || { cat "$S/build.log"; echo "INFRASTRUCTURE: build failed ($out)"; exit 2; }
}
build "$S/h" "$S/bin/voresim"
NEED_RACE=0; NEED_CLI=0
case "$ID" in C19) NEED_RACE=1;; C18) NEED_CLI=1;; esac
RACEBIN=""
if [ $NEED_RACE = 1 ]; then build "$S/h" "$S/bin/voresim.race" -race; RACEBIN="$S/bin/voresim.race"; fi
if [ $NEED_CLI = 1 ]; then build "$S/repo" "$S/bin/vore"; fi
[ -n "${VORESIM_BUILD_ONLY:-}" ] && exit 0

COMMON=(-verif "$VERIF" -repo "$REPO" -scratch "$S" -inventory "$S/inventory.json" -cli "$S/bin/vore" -racebin "$RACEBIN")
if [ "$MODE" = "--replay" ]; then
  FILE="${3:?replay file}"
  BIN="$S/bin/voresim"
  if grep -q '"race_binary": true' "$FILE"; then
    [ -n "$RACEBIN" ] || { build "$S/h" "$S/bin/voresim.race" -race; RACEBIN="$S/bin/voresim.race"; }
    BIN="$RACEBIN"
  fi
  GORACE="halt_on_error=1 history_size=5 exitcode=66" GOMAXPROCS=1 "$BIN" replay "${COMMON[@]}" -file "$FILE" -world "$S/worlds/0replay0"
  rc=$?
  case $rc in
    0)  echo "VIOLATION property=$ID replay=$FILE"; exit 1;;
    66) echo "VIOLATION property=$ID replay=$FILE"; exit 1;;
    1)  echo "replay did not reproduce the violation"; exit 0;;
    *)  if grep -q '"oracle": "process-crash"' "$FILE"; then echo "VIOLATION property=$ID replay=$FILE"; exit 1; fi
        echo "INFRASTRUCTURE: replay exited $rc"; exit 2;;
  esac
fi

EVD="${VORESIM_EVIDENCE_DIR:-$VERIF/evidence}"   # sensitivity runs against scratch trees write elsewhere
RPD="${VORESIM_REPLAY_DIR:-$VERIF/replays}"
mkdir -p "$EVD" "$RPD"
"$S/bin/voresim" check "${COMMON[@]}" -tier "$MODE" -seed "$SEED" -prop "$ID" \
   -evidence "$EVD/$ID.json" -replays "$RPD" -known "$VERIF/known_findings.jsonl" ${VORESIM_WORKERS:+-workers "$VORESIM_WORKERS"}
exit $?
