package main

import (
	"encoding/binary"
	"encoding/json"
	"flag"
	"fmt"
	"os"
	"runtime"
	"runtime/debug"
	"strings"
	"time"

	"verif/simrt"
)

func envFromFlags(fs *flag.FlagSet) *Env {
	e := &Env{}
	fs.StringVar(&e.VerifDir, "verif", "/verif", "verif dir")
	fs.StringVar(&e.RepoDir, "repo", "/repo", "repo dir")
	fs.StringVar(&e.ScratchS, "scratch", "", "scratch dir")
	fs.StringVar(&e.Inventory, "inventory", "", "inventory.json")
	fs.StringVar(&e.CLI, "cli", "", "instrumented CLI binary")
	fs.StringVar(&e.RaceBin, "racebin", "", "race binary")
	fs.StringVar(&e.Tier, "tier", "quick", "tier")
	fs.Uint64Var(&e.Seed, "seed", 1, "VERIF_SEED")
	e.Self, _ = os.Executable()
	e.Race = raceEnabled
	return e
}

func simProcessSetup() {
	if os.Getenv("VORESIM_TRACE") != "" {
		simrt.Trace = true
	}
	runtime.GOMAXPROCS(1)
	debug.SetMaxStack(256 << 20)
	debug.SetGCPercent(200)
	simrt.DefaultHeapLimit = 3 << 29
}

func hasKey(vs []Violation, key string) bool {
	for _, v := range vs {
		if v.Key == key {
			return true
		}
	}
	return false
}

var lastSimLimit string

func executeRun(c Check, phase string, index uint64, t *Tape, world string, stats map[string]uint64, replay bool) *RunResult {
	ctx := &RunCtx{T: t, Phase: phase, Index: index, World: world, Stats: stats, Race: raceEnabled, Replay: replay}
	sawSoftHeap = false
	res := c.Run(ctx)
	simrt.Stop()
	if sawSoftHeap || simrt.SoftHeapFired() {
		stats["discarded_heap_safety_limit"]++
		res.Violations = nil
		res.Nontrivial = false
		res.EventHash = 0 // when the limit strikes depends on the garbage collector: such a run has no pinned log
		res.Steps = 0
		runtime.GC()
	}
	if simrt.SimLimit != "" {
		// the simulator ran out of a fixed resource: no verdict on this run
		stats["simulator_limit_runs"]++
		lastSimLimit = simrt.SimLimit
		res.Violations = nil
		res.Nontrivial = false
	}
	return res
}

func workerMain(args []string) int {
	fs := flag.NewFlagSet("worker", flag.ExitOnError)
	env := envFromFlags(fs)
	prop := fs.String("prop", "", "property")
	phase := fs.String("phase", "", "phase")
	sweep := fs.Bool("sweep", false, "sweep phase")
	from := fs.Uint64("from", 0, "")
	to := fs.Uint64("to", 0, "")
	out := fs.String("out", "", "")
	world := fs.String("world", "", "")
	progress := fs.String("progress", "", "")
	deadline := fs.Int64("deadline", 0, "unix seconds")
	sigMod := fs.Uint64("sigmod", 1, "")
	maxShrink := fs.Int("maxshrink", 3, "")
	fs.Parse(args)
	c := checks[*prop]
	if c == nil {
		fmt.Fprintln(os.Stderr, "unknown property", *prop)
		return 2
	}
	simProcessSetup()
	if err := c.Init(env); err != nil {
		fmt.Fprintln(os.Stderr, "init:", err)
		return 2
	}
	os.MkdirAll(*world, 0755)
	var pf *os.File
	if *progress != "" {
		pf, _ = os.OpenFile(*progress, os.O_CREATE|os.O_WRONLY, 0644)
	}
	wo := &WorkerOut{Phase: *phase, Stats: map[string]uint64{}, SigMod: *sigMod}
	sigs := map[uint64]struct{}{}
	seenKeys := map[string]bool{}
	t0 := time.Now()
	var buf [8]byte
	for i := *from; i < *to; i++ {
		if *deadline != 0 && i&15 == 0 && time.Now().Unix() > *deadline {
			wo.Truncated = true
			break
		}
		if pf != nil {
			binary.LittleEndian.PutUint64(buf[:], i)
			pf.WriteAt(buf[:], 0)
		}
		rs := runSeed(env.Seed, *prop, *phase, i)
		var prefix []uint64
		if *sweep {
			prefix = c.SweepPrefix(*phase, i)
			if prefix == nil {
				continue
			}
		}
		tape := NewTape(rs, prefix)
		tRun := time.Now()
		res := executeRun(c, *phase, i, tape, *world, wo.Stats, false)
		if os.Getenv("VORESIM_SLOWLOG") != "" && time.Since(tRun) > 2*time.Second {
			// development aid only: wall time is logged, never fed back into the run
			if b, err := json.Marshal(res.Desc); err == nil {
				if len(b) > 600 {
					b = b[len(b)-600:]
				}
				fmt.Fprintf(slowLog(), "SLOW run=%d %.1fs steps=%d ...%s\n", i, time.Since(tRun).Seconds(), res.Steps, b)
			}
		}
		wo.Runs++
		wo.Steps += res.Steps
		if res.Nontrivial {
			wo.Nontrivial++
			if res.Sig%*sigMod == 0 {
				sigs[res.Sig] = struct{}{}
			}
		}
		if len(wo.Samples) < 3 && (res.Nontrivial || i+3 >= *to) && res.Desc != nil {
			wo.Samples = append(wo.Samples, res.Desc)
		}
		if len(res.Violations) > 0 {
			wo.NViol++
			for _, v := range res.Violations {
				if seenKeys[v.Key] || len(wo.Violations) >= *maxShrink {
					continue
				}
				seenKeys[v.Key] = true
				full := append([]uint64(nil), tape.Rec...)
				scratchStats := map[string]uint64{}
				shr, execs := shrinkTape(full, 300, func(cand []uint64) bool {
					r := executeRun(c, *phase, i, ReplayTape(cand), *world, scratchStats, true)
					return hasKey(r.Violations, v.Key)
				})
				// final run of the shrunk tape to get its description and hash
				rt := ReplayTape(shr)
				r := executeRun(c, *phase, i, rt, *world, scratchStats, true)
				viol := v
				reproduced := false
				for _, rv := range r.Violations {
					if rv.Key == v.Key {
						viol = rv
						reproduced = true
					}
				}
				if !reproduced {
					// the violation does not show again in this (by now warm) process: it depends on
					// process state such as a cold start. Keep the original run; the driver replays
					// it in a fresh process (with its history if need be).
					wo.Violations = append(wo.Violations, WorkerViolation{ChunkFrom: *from, Index: i, RunSeed: rs, Violation: v, Tape: full, TapeFull: len(full), Shrunk: execs, EventHash: res.EventHash, Desc: res.Desc})
					continue
				}
				wo.Violations = append(wo.Violations, WorkerViolation{ChunkFrom: *from, Index: i, RunSeed: rs, Violation: viol, Tape: rt.Rec, TapeFull: len(full), Shrunk: execs, EventHash: r.EventHash, Desc: r.Desc})
			}
		}
	}
	for s := range sigs {
		wo.Sigs = append(wo.Sigs, s)
	}
	for i, h := range simrt.SiteHits {
		if h != 0 {
			wo.SiteHits = append(wo.SiteHits, i)
		}
	}
	wo.WallS = time.Since(t0).Seconds()
	wo.SimLimit = lastSimLimit
	if err := writeJSON(*out, wo); err != nil {
		fmt.Fprintln(os.Stderr, "write:", err)
		return 2
	}
	return 0
}

// replayMain re-executes a replay file in this (fresh) process.
// exit 0: the same violation (key and event hash) was reproduced;
// exit 1: it was not. Race-detector violations kill the process with 66 and
// are judged by the caller from the report on stderr.
func replayMain(args []string) int {
	fs := flag.NewFlagSet("replay", flag.ExitOnError)
	env := envFromFlags(fs)
	file := fs.String("file", "", "")
	world := fs.String("world", "", "")
	fs.Parse(args)
	var rf ReplayFile
	if err := readJSON(*file, &rf); err != nil {
		fmt.Fprintln(os.Stderr, "replay:", err)
		return 2
	}
	c := checks[rf.Property]
	if c == nil {
		fmt.Fprintln(os.Stderr, "unknown property", rf.Property)
		return 2
	}
	simProcessSetup()
	env.Seed = rf.VerifSeed
	if err := c.Init(env); err != nil {
		fmt.Fprintln(os.Stderr, "init:", err)
		return 2
	}
	os.MkdirAll(*world, 0755)
	stats := map[string]uint64{}
	for _, f := range strings.Fields(rf.Prelude) {
		var idx uint64
		fmt.Sscan(f, &idx)
		var prefix []uint64
		if rf.Sweep {
			prefix = c.SweepPrefix(rf.Phase, idx)
		}
		executeRun(c, rf.Phase, idx, NewTape(runSeed(rf.VerifSeed, rf.Property, rf.Phase, idx), prefix), *world, stats, true)
	}
	tp := ReplayTape(rf.Tape)
	if rf.Tape == nil {
		var prefix []uint64
		if rf.Sweep {
			prefix = c.SweepPrefix(rf.Phase, rf.Index)
		}
		tp = NewTape(runSeed(rf.VerifSeed, rf.Property, rf.Phase, rf.Index), prefix)
	}
	res := executeRun(c, rf.Phase, rf.Index, tp, *world, stats, true)
	got := "none"
	for _, v := range res.Violations {
		if v.Key == rf.Violation.Key {
			got = v.Key
		}
	}
	h := fmt.Sprintf("%016x", res.EventHash)
	fmt.Printf("REPLAY property=%s key=%q reproduced=%v event_hash=%s expected_hash=%s\n", rf.Property, rf.Violation.Key, got != "none", h, rf.EventHash)
	if got == "none" {
		for _, v := range res.Violations {
			fmt.Printf("  other violation: %s | %s\n", v.Key, v.Detail)
		}
		return 1
	}
	if rf.EventHash != "" && rf.EventHash != h {
		fmt.Println("  event log hash differs")
		return 1
	}
	return 0
}

func slowLog() *os.File {
	f, err := os.OpenFile(os.Getenv("VORESIM_SLOWLOG"), os.O_CREATE|os.O_APPEND|os.O_WRONLY, 0644)
	if err != nil {
		return os.Stderr
	}
	return f
}
