package main

// C19 — Compile and Run are safe to call from many goroutines.
//
// 2–4 client tasks (real goroutines under the token scheduler) each execute
// 1–4 ops: compile-and-run a private program, run a shared compiled program,
// compile only, or RunFiles(NOTHING) on a shared program. Oracles: every op's
// outcome equals its solo outcome; the own happens-before monitor sees no
// unordered conflicting access to a package variable; no deadlock and no
// budget abort; after the concurrent phase every distinct op still gives its
// solo outcome; and in the -race phase the Go race detector, made
// schedule-deterministic by the token scheduler, reports nothing.

import (
	"flag"
	"fmt"
	"math/rand"
	"os"
	"os/exec"
	"path/filepath"
	"regexp"
	"sort"
	"strings"
	"sync"

	"github.com/jmeaster30/vore/libvore"
	"github.com/jmeaster30/vore/libvore/engine"
	"verif/simrt"
)

type c19op struct {
	Kind string `json:"kind"` // compile-run | run-shared | compile | runfiles-shared
	Item int    `json:"item"`
	Src  string `json:"src"`
	Text string `json:"text,omitempty"`
	Var  int    `json:"text_variant,omitempty"`
}

type c19 struct {
	env    *Env
	pool   []Item
	solo   []Outcome   // compile-run outcome of pool[i]
	soloC  []Outcome   // compile-only outcome
	soloF  []Outcome   // runfiles outcome (shared program on the item's file)
	soloV  [][]Outcome // Run outcome of the compiled program on each text variant
	steps  []uint64    // solo steps of compile-run
	files  []string    // file holding pool[i].Text
	worldR string
	// monitorOff: the tree uses synchronisation the own HB monitor does not
	// model (atomics, sync.Map, sync.Pool); the race detector still decides.
	monitorOff bool
	nHeavy     int
}

func init() { register(&c19{}) }

func (c *c19) ID() string { return "C19" }

func (c *c19) Phases(tier string) []PhaseSpec {
	if tier == "thorough" {
		return []PhaseSpec{
			{Name: "plain", Runs: 600000, Note: "seeded schedules, value/monitor/deadlock oracles"},
			{Name: "race", Runs: 100000, Race: true, Note: "same generator under the Go race detector"},
			{Name: "pairsweep", Runs: 0, Sweep: true, Note: "every single preemption on each of the first access/lock events for every ordered pair of regex programs"},
			{Name: "cold", Runs: 4000, Cold: true, Note: "one fresh process per run: the first vore calls of the process are concurrent"},
			{Name: "coldrace", Runs: 1000, Race: true, Cold: true, Note: "cold starts under the race detector"},
		}
	}
	return []PhaseSpec{
		{Name: "plain", Runs: 6000, Note: "seeded schedules, value/monitor/deadlock oracles"},
		{Name: "race", Runs: 600, Race: true, Note: "same generator under the Go race detector"},
		{Name: "cold", Runs: 160, Cold: true, Note: "one fresh process per run: the first vore calls of the process are concurrent"},
		{Name: "coldrace", Runs: 64, Race: true, Cold: true, Note: "cold starts under the race detector"},
	}
}

func (c *c19) Rule() string {
	return "one run = 2-4 client tasks x 1-4 ops (compile+run private, run shared program, compile only, RunFiles NOTHING on shared program) drawn from the corpus, executed under a seeded preemption plan (access-/lock-event-targeted, uniform step triggers, op-boundary, or serial); non-trivial = at least one token switch happened while both the task switched from and the task switched to were inside an op; distinct = distinct (op multiset, switch sequence) signatures among the non-trivial runs"
}

func (c *c19) Assumptions() []string {
	return []string{
		"preemption only at instrumented points (function entries, loop heads, package-variable accesses, lock operations, file-system calls); data races between two such points are still reported by the race detector because the simulator adds no happens-before edge",
		"solo reference outcomes are computed by the same instrumented build at process start",
		"write modes of RunFiles are excluded: two callers replacing into the same file conflict at application level",
	}
}

func (c *c19) ProbeNames() []string {
	return []string{"overlapping_ops_switch", "switch_on_access_event", "two_tasks_inside_compile", "lock_waits", "two_tasks_inside_shared_run"}
}

var digitsRe = regexp.MustCompile(`[0-9]+`)

func coarse(s string) string {
	s = digitsRe.ReplaceAllString(s, "#")
	if len(s) > 70 {
		s = s[:70]
	}
	return s
}

// c19refs is what the reference child process computes and every other process loads:
// no process that runs simulated phases executes vore code before its first run, so
// the first calls of a process happen inside a concurrent phase (cold start).
type c19refs struct {
	Pool   []Item      `json:"pool"`
	NHeavy int         `json:"n_heavy"`
	Solo   []Outcome   `json:"solo"`
	SoloC  []Outcome   `json:"solo_compile"`
	SoloF  []Outcome   `json:"solo_runfiles"`
	SoloV  [][]Outcome `json:"solo_variants"`
	Steps  []uint64    `json:"steps"`
}

// heavy items: beyond the sizes of the ordinary corpus (texts of 64 KiB and more, tens
// of thousands of matches, sources larger than a read buffer). Drawn rarely.
func c19heavy() []Item {
	z := strings.Repeat("z", 65536)
	many := strings.Repeat("q", 17000)
	return []Item{
		{Name: "heavy-64k-three-commands", Src: "find all 'ab'\nfind all digit\nfind all 'b1'", Text: z + "ab ab1 b1 7"},
		{Name: "heavy-64k-set-then-find", Src: "set p to pattern 'a' or 'b'\nfind all p p\nfind all '1'", Text: z + "ab ba 1"},
		{Name: "heavy-17000-matches-after-set", Src: "set x to pattern 'k'\nfind all any", Text: many},
		{Name: "heavy-big-source-generator-error", Src: strings.Repeat("find all 'abc' digit\nfind top 2 letter 'x'\n", 220) + "find all undefinedname", Text: "abc1"},
		{Name: "heavy-big-source-ok", Src: strings.Repeat("find all 'abc' digit\n", 260), Text: "abc1 abc2"},
	}
}

func (c *c19) computeRefs(env *Env) (*c19refs, error) {
	corp, err := loadCorpus(env.VerifDir)
	if err != nil {
		return nil, err
	}
	r := &c19refs{}
	dir := filepath.Join(env.ScratchS, fmt.Sprintf("c19refs-%d", os.Getpid()))
	os.MkdirAll(dir, 0755)
	defer os.RemoveAll(dir)
	add := func(it Item, heavy bool) error {
		simrt.Reset(1, nil, 7)
		simrt.Solo()
		rand.Seed(12345)
		simrt.OpStart(300000000)
		o := doCompileRun(it.Src, it.Text)
		simrt.OpEnd()
		st := simrt.Steps
		simrt.Stop()
		if o.Class == "abort" || (!heavy && st > 60000) {
			return nil // too slow for a concurrency workload
		}
		fn := filepath.Join(dir, fmt.Sprintf("f%03d.txt", len(r.Pool)))
		if err := os.WriteFile(fn, []byte(it.Text), 0644); err != nil {
			return err
		}
		simrt.Reset(1, nil, 7)
		simrt.Solo()
		rand.Seed(12345)
		v, oc := doCompile(it.Src)
		var of Outcome
		var ov []Outcome
		if v != nil {
			of, _ = doRunFiles(v, []string{fn}, engine.NOTHING, dir)
			for _, tx := range textVariants(it.Text) {
				ov = append(ov, doRun(v, tx))
			}
		} else {
			of = oc
		}
		simrt.Stop()
		r.Pool = append(r.Pool, it)
		r.Solo = append(r.Solo, o)
		r.Steps = append(r.Steps, st)
		r.SoloC = append(r.SoloC, oc)
		r.SoloF = append(r.SoloF, of)
		r.SoloV = append(r.SoloV, ov)
		return nil
	}
	for _, it := range corp.Items {
		if len(it.Text) > 160 {
			it.Text = it.Text[:160]
		}
		if len(it.Src) > 1500 {
			continue
		}
		if err := add(it, false); err != nil {
			return nil, err
		}
	}
	n := len(r.Pool)
	for _, it := range c19heavy() {
		if err := add(it, true); err != nil {
			return nil, err
		}
	}
	r.NHeavy = len(r.Pool) - n
	return r, nil
}

func c19refsMain(args []string) int {
	fs := flag.NewFlagSet("c19refs", flag.ExitOnError)
	env := envFromFlags(fs)
	out := fs.String("out", "", "")
	fs.Parse(args)
	simProcessSetup()
	c := &c19{}
	r, err := c.computeRefs(env)
	if err != nil {
		fmt.Fprintln(os.Stderr, "c19refs:", err)
		return 2
	}
	if err := writeJSON(*out, r); err != nil {
		return 2
	}
	return 0
}

func (c *c19) Init(env *Env) error {
	c.env = env
	var inv inventoryFile
	if readJSON(env.Inventory, &inv) == nil && len(inv.Unmodelled) > 0 {
		c.monitorOff = true
	}
	path := filepath.Join(env.ScratchS, "out", "c19refs.json")
	var r c19refs
	if readJSON(path, &r) != nil || len(r.Pool) == 0 {
		// computed by a child process, so that this process stays cold
		os.MkdirAll(filepath.Dir(path), 0755)
		tmp := fmt.Sprintf("%s.%d", path, os.Getpid())
		cmd := exec.Command(env.Self, "c19refs", "-verif", env.VerifDir, "-repo", env.RepoDir, "-scratch", env.ScratchS, "-inventory", env.Inventory, "-out", tmp)
		cmd.Env = append(os.Environ(), "GOMAXPROCS=1", "GORACE=halt_on_error=0")
		if out, err := cmd.CombinedOutput(); err != nil {
			return fmt.Errorf("C19 reference process failed: %v: %s", err, trunc(string(out), 600))
		}
		if err := os.Rename(tmp, path); err != nil {
			return err
		}
		if err := readJSON(path, &r); err != nil {
			return err
		}
	}
	c.pool, c.nHeavy = r.Pool, r.NHeavy
	c.solo, c.soloC, c.soloF, c.soloV, c.steps = r.Solo, r.SoloC, r.SoloF, r.SoloV, r.Steps
	if len(c.pool)-c.nHeavy < 20 {
		return fmt.Errorf("C19: corpus too small after filtering: %d", len(c.pool))
	}
	c.worldR = filepath.Join(env.ScratchS, fmt.Sprintf("c19files-%d", os.Getpid()))
	os.MkdirAll(c.worldR, 0755)
	c.files = nil
	for i, it := range c.pool {
		fn := filepath.Join(c.worldR, fmt.Sprintf("f%03d.txt", i))
		if err := os.WriteFile(fn, []byte(it.Text), 0644); err != nil {
			return err
		}
		c.files = append(c.files, fn)
	}
	return nil
}

// regexItems lists pool indices whose source has a regex literal with groups.
func (c *c19) regexItems() []int {
	var out []int
	re := regexp.MustCompile(`@/.*\(`)
	for i, it := range c.pool {
		if re.MatchString(it.Src) {
			out = append(out, i)
		}
	}
	return out
}

func (c *c19) SweepPrefix(phase string, i uint64) []uint64 {
	// pairsweep: tasks=2 (draw 0), 1 op each (draw 0), both compile-run of
	// regex items a,b; strategy 0 (access-targeted) with exactly one
	// preemption at access event k.
	rx := c.regexItems()
	n := uint64(len(rx))
	const K = 24
	if i >= n*n*K {
		return nil
	}
	a := rx[(i/K)/n]
	b := rx[(i/K)%n]
	k := i%K + 1
	// draw order in Run: ntasks, nshared, [per task: nops, (kind, item)*], randseed hi/lo, mapseed, strategy, nplan, (delta,to)*
	// (each item draw is followed by the heavy-item draw: 0 = not heavy)
	return []uint64{0 /*2 tasks*/, 0 /*no shared*/, 0 /*no hot item*/, 0, 0, uint64(a), 0, 0, 0, uint64(b), 0, 1, 1, 1, 1 /*strategy access*/, 1 /*one preemption*/, k - 1, 1}
}

func (c *c19) SweepCount(phase string) uint64 {
	n := uint64(len(c.regexItems()))
	return n * n * 24
}

type c19desc struct {
	Tasks    [][]c19op    `json:"tasks"`
	Shared   []int        `json:"shared_programs,omitempty"`
	Strategy string       `json:"strategy"`
	Plan     []simrt.Plan `json:"preemption_plan"`
	RandSeed int64        `json:"rand_seed"`
	MapSeed  uint64       `json:"map_seed"`
	Switches []string     `json:"switches,omitempty"`
	Outcomes [][]string   `json:"outcomes,omitempty"`
}

var kindNames = []string{"compile-run", "run-shared", "compile", "runfiles-shared"}
var stratNames = []string{"serial", "access-targeted", "uniform-steps", "op-boundary", "mixed"}

func (c *c19) Run(ctx *RunCtx) *RunResult {
	t := ctx.T
	n := t.Range(2, 4)
	nshared := t.Range(0, 3)
	light := len(c.pool) - c.nHeavy
	drawItem := func() int {
		item := t.Draw(light)
		if c.nHeavy > 0 && t.Draw(250) == 1 {
			item = light + t.Draw(c.nHeavy)
			ctx.Count("heavy_item_drawn", 1)
		}
		return item
	}
	// now and then most ops of a run use one and the same program ("the same ... at the same time")
	hot := -1
	if t.Draw(3) == 1 {
		hot = drawItem()
		if c.nHeavy > 0 && t.Draw(20) == 1 {
			hot = light + t.Draw(c.nHeavy) // the same large program or text used by several callers at once
			ctx.Count("heavy_item_drawn", 1)
		}
		ctx.Count("run_with_hot_item", 1)
	}
	drawOpItem := func() int {
		if hot >= 0 && t.Draw(2) == 1 {
			return hot
		}
		return drawItem()
	}
	shared := make([]int, nshared)
	for i := range shared {
		shared[i] = drawOpItem()
	}
	work := make([][]c19op, n)
	var estSteps uint64
	for ti := 0; ti < n; ti++ {
		k := t.Range(1, 4)
		for j := 0; j < k; j++ {
			kind := t.Draw(4)
			item := drawOpItem()
			if (kind == 1 || kind == 3) && nshared == 0 {
				kind = 0
			}
			if kind == 1 || kind == 3 {
				item = shared[item%nshared]
			}
			it := c.pool[item]
			op := c19op{Kind: kindNames[kind], Item: item, Src: it.Src, Text: it.Text}
			if kind == 1 {
				// the same shared program is run on different texts by different callers
				op.Var = t.Draw(3)
				op.Text = textVariants(it.Text)[op.Var]
			}
			work[ti] = append(work[ti], op)
			estSteps += c.steps[item]
		}
	}
	randSeed := int64(t.Draw(1<<30))<<8 | int64(t.Draw(256))
	mapSeed := uint64(t.Draw(1 << 30))
	strat := t.Draw(5)
	var plan []simrt.Plan
	switch strat {
	case 1: // access-targeted
		k := t.Range(0, 8)
		at := uint64(0)
		for i := 0; i < k; i++ {
			if i == 0 {
				at += uint64(t.Range(1, 24))
			} else {
				at += uint64(t.Range(1, 4))
			}
			plan = append(plan, simrt.Plan{Kind: simrt.KAccess, At: at, To: t.Draw(n)})
		}
	case 2: // uniform steps
		k := t.Range(0, 6)
		ats := make([]uint64, k)
		for i := range ats {
			ats[i] = uint64(t.Range(1, int(estSteps)+1))
		}
		sort.Slice(ats, func(i, j int) bool { return ats[i] < ats[j] })
		for _, a := range ats {
			plan = append(plan, simrt.Plan{Kind: simrt.KStep, At: a, To: t.Draw(n)})
		}
	case 3: // op boundaries
		k := t.Range(0, 6)
		at := uint64(0)
		for i := 0; i < k; i++ {
			at += uint64(t.Range(1, 3))
			plan = append(plan, simrt.Plan{Kind: simrt.KOp, At: at, To: t.Draw(n)})
		}
	case 4: // mixed: a few of each, plus I/O events
		k := t.Range(0, 4)
		at := uint64(0)
		for i := 0; i < k; i++ {
			at += uint64(t.Range(1, 6))
			plan = append(plan, simrt.Plan{Kind: simrt.KAccess, At: at, To: t.Draw(n)})
		}
		k = t.Range(0, 4)
		ats := make([]uint64, k)
		for i := range ats {
			ats[i] = uint64(t.Range(1, int(estSteps)+1))
		}
		sort.Slice(ats, func(i, j int) bool { return ats[i] < ats[j] })
		for _, a := range ats {
			plan = append(plan, simrt.Plan{Kind: simrt.KStep, At: a, To: t.Draw(n)})
		}
		k = t.Range(0, 3)
		at = 0
		for i := 0; i < k; i++ {
			at += uint64(t.Range(1, 5))
			plan = append(plan, simrt.Plan{Kind: simrt.KIO, At: at, To: t.Draw(n)})
		}
	}

	res := &RunResult{}
	addV := func(oracle, key, detail string) {
		for _, v := range res.Violations {
			if v.Key == key {
				return
			}
		}
		res.Violations = append(res.Violations, Violation{oracle, key, detail})
	}

	// shared programs are compiled by the main goroutine before the phase
	handles := map[int]*libvore.Vore{}
	simrt.Reset(1, nil, mapSeed)
	simrt.Solo()
	rand.Seed(randSeed)
	for _, s := range shared {
		if _, ok := handles[s]; !ok {
			v, _ := doCompile(c.pool[s].Src)
			handles[s] = v
		}
	}
	simrt.Stop()

	outs := make([][]Outcome, n)
	for ti := range outs {
		outs[ti] = make([]Outcome, len(work[ti]))
	}
	mutated := make([]string, n)
	simrt.Reset(n, plan, mapSeed)
	rand.Seed(randSeed ^ 0x5a5a)
	var wg sync.WaitGroup
	for ti := 0; ti < n; ti++ {
		ti := ti
		wg.Add(1)
		go func() {
			defer wg.Done()
			defer simrt.Finish(ti)
			defer func() {
				// an Abort (deadlock unwinding) that escapes the op wrappers
				recover()
			}()
			simrt.WaitTurn(ti)
			var held []engine.Matches
			var heldAt []int
			for j, op := range work[ti] {
				var ms engine.Matches
				outs[ti][j], ms = c.execOp(op, handles)
				if ms != nil {
					held = append(held, ms)
					heldAt = append(heldAt, j)
				}
			}
			// what a call returned must still be what it returned once other calls have run
			for k, ms := range held {
				if d := matchesDigest(ms, false, ""); d != outs[ti][heldAt[k]].Digest {
					mutated[ti] = fmt.Sprintf("op %d (%s %q): returned %q, the same list later reads %q", heldAt[k], work[ti][heldAt[k]].Kind, trunc(work[ti][heldAt[k]].Src, 60), trunc(outs[ti][heldAt[k]].Digest, 120), trunc(d, 120))
				}
			}
		}()
	}
	simrt.Start(0)
	simrt.WaitAllDone()
	wg.Wait()
	steps := simrt.Steps
	overlap := simrt.Overlap
	swHash := simrt.SwitchHash
	switches := simrt.Switches()
	landedAcc := simrt.Landed[simrt.KAccess]
	probeCompile := simrt.ProbeHit[0]
	probeShared := simrt.ProbeHit[1]
	lockWaits := simrt.LockWaits
	deadlock := simrt.Deadlock
	mraces := append([]string(nil), simrt.MonitorRaces()...)
	simrt.Stop()

	ctx.Count("runs_with_overlap", b2u(overlap > 0))
	ctx.Count("overlapping_ops_switch", overlap)
	ctx.Count("switch_on_access_event", landedAcc)
	ctx.Count("two_tasks_inside_compile", probeCompile)
	ctx.Count("two_tasks_inside_shared_run", probeShared)
	ctx.Count("lock_waits", lockWaits)
	ctx.Count("switches", uint64(len(switches)))
	ctx.Count("strategy_"+stratNames[strat], 1)
	for k := 0; k < 4; k++ {
		ctx.Count("preemptions_landed_"+[]string{"step", "access", "io", "opstart"}[k], simrt.Landed[k])
	}

	// oracle (c): own monitor
	if c.monitorOff {
		ctx.Count("hb_monitor_disabled_unmodelled_sync", 1)
		mraces = nil
	}
	for _, r := range mraces {
		addV("hb-monitor", "monitor:"+r, "unordered conflicting accesses to a package-level variable: "+r)
	}
	for ti, m := range mutated {
		if m != "" {
			addV("returned-data-stable", "result-mutated-after-return", fmt.Sprintf("task %d %s", ti, m))
		}
	}
	// oracle (d): deadlock / abort
	if deadlock {
		addV("deadlock", "deadlock", "all unfinished tasks blocked on locks")
	}
	// oracle (a): solo equality
	evh := mix(swHash, uint64(n))
	var opsig []uint64
	for ti := range work {
		for j, op := range work[ti] {
			got := outs[ti][j]
			want := c.want(op)
			evh = mix(evh, hashStr(got.String()))
			opsig = append(opsig, mix(hashStr(op.Kind), uint64(op.Item), uint64(op.Var)))
			if got.Class == "abort" {
				addV("liveness", "abort:"+got.Detail, fmt.Sprintf("task %d op %d (%s %q) was aborted: %s", ti, j, op.Kind, trunc(op.Src, 60), got.Detail))
				continue
			}
			if !got.Same(want) {
				addV("solo-equality", "solo-mismatch:"+got.Class+":"+coarse(got.Detail), fmt.Sprintf("task %d op %d %s src=%q text=%q: concurrent outcome %q, alone %q", ti, j, op.Kind, trunc(op.Src, 80), trunc(op.Text, 40), trunc(got.String(), 160), trunc(want.String(), 160)))
			}
		}
	}
	// oracle (e): persistent corruption — run every distinct op once more, alone
	seen := map[string]bool{}
	simrt.Reset(1, nil, mapSeed+1)
	simrt.Solo()
	for ti := range work {
		for _, op := range work[ti] {
			id := op.Kind + fmt.Sprint(op.Item, "/", op.Var)
			if seen[id] {
				continue
			}
			seen[id] = true
			got, _ := c.execOp(op, handles)
			want := c.want(op)
			evh = mix(evh, hashStr(got.String()))
			if !got.Same(want) {
				addV("post-phase-solo", "post-mismatch:"+got.Class+":"+coarse(got.Detail), fmt.Sprintf("after the concurrent phase %s src=%q gives %q, alone %q", op.Kind, trunc(op.Src, 80), trunc(got.String(), 160), trunc(want.String(), 160)))
			}
		}
	}
	steps += simrt.Steps
	simrt.Stop()

	sort.Slice(opsig, func(i, j int) bool { return opsig[i] < opsig[j] })
	res.Sig = mix(append(opsig, swHash)...)
	res.EventHash = evh
	res.Steps = steps
	res.Nontrivial = overlap > 0
	d := &c19desc{Tasks: work, Shared: shared, Strategy: stratNames[strat], Plan: plan, RandSeed: randSeed, MapSeed: mapSeed}
	for i, s := range switches {
		if i >= 24 {
			break
		}
		d.Switches = append(d.Switches, fmt.Sprintf("step %d: task %d -> %d", s>>16, (s>>8)&0xff, s&0xff))
	}
	for ti := range outs {
		var l []string
		for _, o := range outs[ti] {
			l = append(l, trunc(o.String(), 100))
		}
		d.Outcomes = append(d.Outcomes, l)
	}
	res.Desc = d
	return res
}

func b2u(b bool) uint64 {
	if b {
		return 1
	}
	return 0
}

func (c *c19) want(op c19op) Outcome {
	switch op.Kind {
	case "compile-run":
		return c.solo[op.Item]
	case "run-shared":
		if c.soloC[op.Item].Class != "ok" || len(c.soloV[op.Item]) <= op.Var {
			return c.soloC[op.Item]
		}
		return c.soloV[op.Item][op.Var]
	case "compile":
		return c.soloC[op.Item]
	default:
		return c.soloF[op.Item]
	}
}

func (c *c19) execOp(op c19op, handles map[int]*libvore.Vore) (out Outcome, kept engine.Matches) {
	budget := 200*c.steps[op.Item] + 100000
	simrt.OpStart(budget)
	defer simrt.OpEnd()
	defer func() {
		if r := recover(); r != nil {
			out = panicOutcome(r)
			kept = nil
		}
	}()
	switch op.Kind {
	case "compile-run":
		simrt.ProbeEnter(0)
		v, o := doCompile(op.Src)
		simrt.ProbeLeave(0)
		if v == nil {
			return o, nil
		}
		return doRunKeep(v, op.Text)
	case "compile":
		simrt.ProbeEnter(0)
		_, o := doCompile(op.Src)
		simrt.ProbeLeave(0)
		return o, nil
	case "run-shared":
		v := handles[op.Item]
		if v == nil {
			return c.soloC[op.Item], nil
		}
		simrt.ProbeEnter(1)
		defer simrt.ProbeLeave(1)
		return doRunKeep(v, op.Text)
	default:
		v := handles[op.Item]
		if v == nil {
			return c.soloC[op.Item], nil
		}
		simrt.ProbeEnter(1)
		defer simrt.ProbeLeave(1)
		o, _ := doRunFiles(v, []string{c.files[op.Item]}, engine.NOTHING, c.worldR)
		return o, nil
	}
}
