package main

// C19 — Compile and Run are safe to call from many goroutines.
//
// 2–4 client tasks (real goroutines under the token scheduler) each execute
// 1–4 ops: compile-and-run a private program, run a shared compiled program,
// compile only, or RunFiles(NOTHING) on a shared program. Oracles: every op's
// outcome equals its solo outcome; the own happens-before monitor sees no
// unordered conflicting access to a package variable; no deadlock and no
// budget abort; after the concurrent phase every distinct op still gives its
// solo outcome; and in the -race phase the Go race detector, made
// schedule-deterministic by the token scheduler, reports nothing.

import (
	"fmt"
	"math/rand"
	"os"
	"path/filepath"
	"regexp"
	"sort"
	"sync"

	"github.com/jmeaster30/vore/libvore"
	"github.com/jmeaster30/vore/libvore/engine"
	"verif/simrt"
)

type c19op struct {
	Kind string `json:"kind"` // compile-run | run-shared | compile | runfiles-shared
	Item int    `json:"item"`
	Src  string `json:"src"`
	Text string `json:"text,omitempty"`
	Var  int    `json:"text_variant,omitempty"`
}

type c19 struct {
	env    *Env
	pool   []Item
	solo   []Outcome   // compile-run outcome of pool[i]
	soloC  []Outcome   // compile-only outcome
	soloF  []Outcome   // runfiles outcome (shared program on the item's file)
	soloV  [][]Outcome // Run outcome of the compiled program on each text variant
	steps  []uint64    // solo steps of compile-run
	files  []string    // file holding pool[i].Text
	worldR string
	// monitorOff: the tree uses synchronisation the own HB monitor does not
	// model (atomics, sync.Map, sync.Pool); the race detector still decides.
	monitorOff bool
}

func init() { register(&c19{}) }

func (c *c19) ID() string { return "C19" }

func (c *c19) Phases(tier string) []PhaseSpec {
	if tier == "thorough" {
		return []PhaseSpec{
			{Name: "plain", Runs: 1500000, Note: "seeded schedules, value/monitor/deadlock oracles"},
			{Name: "race", Runs: 150000, Race: true, Note: "same generator under the Go race detector"},
			{Name: "pairsweep", Runs: 0, Sweep: true, Note: "every single preemption on each of the first access/lock events for every ordered pair of regex programs"},
		}
	}
	return []PhaseSpec{
		{Name: "plain", Runs: 6000, Note: "seeded schedules, value/monitor/deadlock oracles"},
		{Name: "race", Runs: 600, Race: true, Note: "same generator under the Go race detector"},
	}
}

func (c *c19) Rule() string {
	return "one run = 2-4 client tasks x 1-4 ops (compile+run private, run shared program, compile only, RunFiles NOTHING on shared program) drawn from the corpus, executed under a seeded preemption plan (access-/lock-event-targeted, uniform step triggers, op-boundary, or serial); non-trivial = at least one token switch happened while both the task switched from and the task switched to were inside an op; distinct = distinct (op multiset, switch sequence) signatures among the non-trivial runs"
}

func (c *c19) Assumptions() []string {
	return []string{
		"preemption only at instrumented points (function entries, loop heads, package-variable accesses, lock operations, file-system calls); data races between two such points are still reported by the race detector because the simulator adds no happens-before edge",
		"solo reference outcomes are computed by the same instrumented build at process start",
		"write modes of RunFiles are excluded: two callers replacing into the same file conflict at application level",
	}
}

func (c *c19) ProbeNames() []string {
	return []string{"overlapping_ops_switch", "switch_on_access_event", "two_tasks_inside_compile", "lock_waits", "two_tasks_inside_shared_run"}
}

var digitsRe = regexp.MustCompile(`[0-9]+`)

func coarse(s string) string {
	s = digitsRe.ReplaceAllString(s, "#")
	if len(s) > 70 {
		s = s[:70]
	}
	return s
}

func (c *c19) Init(env *Env) error {
	c.env = env
	corp, err := loadCorpus(env.VerifDir)
	if err != nil {
		return err
	}
	var inv inventoryFile
	if readJSON(env.Inventory, &inv) == nil && len(inv.Unmodelled) > 0 {
		c.monitorOff = true
	}
	c.worldR = filepath.Join(env.ScratchS, fmt.Sprintf("c19files-%d", os.Getpid()))
	os.MkdirAll(c.worldR, 0755)
	for _, it := range corp.Items {
		if len(it.Text) > 160 {
			it.Text = it.Text[:160]
		}
		if len(it.Src) > 1500 {
			continue
		}
		c.pool = append(c.pool, it)
	}
	// solo references
	kept := c.pool[:0]
	for _, it := range c.pool {
		simrt.Reset(1, nil, 7)
		simrt.Solo()
		rand.Seed(12345)
		simrt.OpStart(3000000)
		o := doCompileRun(it.Src, it.Text)
		simrt.OpEnd()
		st := simrt.Steps
		simrt.Stop()
		if o.Class == "abort" || st > 60000 {
			continue // too slow for a concurrency workload
		}
		kept = append(kept, it)
		c.solo = append(c.solo, o)
		c.steps = append(c.steps, st)
	}
	c.pool = kept
	for i, it := range c.pool {
		fn := filepath.Join(c.worldR, fmt.Sprintf("f%03d.txt", i))
		if err := os.WriteFile(fn, []byte(it.Text), 0644); err != nil {
			return err
		}
		c.files = append(c.files, fn)
		simrt.Reset(1, nil, 7)
		simrt.Solo()
		rand.Seed(12345)
		v, oc := doCompile(it.Src)
		c.soloC = append(c.soloC, oc)
		var of Outcome
		var ov []Outcome
		if v != nil {
			of, _ = doRunFiles(v, []string{fn}, engine.NOTHING, c.worldR)
			for _, tx := range textVariants(it.Text) {
				ov = append(ov, doRun(v, tx))
			}
		} else {
			of = oc
		}
		c.soloV = append(c.soloV, ov)
		simrt.Stop()
		c.soloF = append(c.soloF, of)
	}
	if len(c.pool) < 20 {
		return fmt.Errorf("C19: corpus too small after filtering: %d", len(c.pool))
	}
	return nil
}

// regexItems lists pool indices whose source has a regex literal with groups.
func (c *c19) regexItems() []int {
	var out []int
	re := regexp.MustCompile(`@/.*\(`)
	for i, it := range c.pool {
		if re.MatchString(it.Src) {
			out = append(out, i)
		}
	}
	return out
}

func (c *c19) SweepPrefix(phase string, i uint64) []uint64 {
	// pairsweep: tasks=2 (draw 0), 1 op each (draw 0), both compile-run of
	// regex items a,b; strategy 0 (access-targeted) with exactly one
	// preemption at access event k.
	rx := c.regexItems()
	n := uint64(len(rx))
	const K = 24
	if i >= n*n*K {
		return nil
	}
	a := rx[(i/K)/n]
	b := rx[(i/K)%n]
	k := i%K + 1
	// draw order in Run: ntasks, nshared, [per task: nops, (kind, item)*], randseed hi/lo, mapseed, strategy, nplan, (delta,to)*
	return []uint64{0 /*2 tasks*/, 0 /*no shared*/, 0, 0, uint64(a), 0, 0, uint64(b), 1, 1, 1, 1 /*strategy access*/, 1 /*one preemption*/, k - 1, 1}
}

func (c *c19) SweepCount(phase string) uint64 {
	n := uint64(len(c.regexItems()))
	return n * n * 24
}

type c19desc struct {
	Tasks    [][]c19op    `json:"tasks"`
	Shared   []int        `json:"shared_programs,omitempty"`
	Strategy string       `json:"strategy"`
	Plan     []simrt.Plan `json:"preemption_plan"`
	RandSeed int64        `json:"rand_seed"`
	MapSeed  uint64       `json:"map_seed"`
	Switches []string     `json:"switches,omitempty"`
	Outcomes [][]string   `json:"outcomes,omitempty"`
}

var kindNames = []string{"compile-run", "run-shared", "compile", "runfiles-shared"}
var stratNames = []string{"serial", "access-targeted", "uniform-steps", "op-boundary", "mixed"}

func (c *c19) Run(ctx *RunCtx) *RunResult {
	t := ctx.T
	n := t.Range(2, 4)
	nshared := t.Range(0, 3)
	shared := make([]int, nshared)
	for i := range shared {
		shared[i] = t.Draw(len(c.pool))
	}
	work := make([][]c19op, n)
	var estSteps uint64
	for ti := 0; ti < n; ti++ {
		k := t.Range(1, 4)
		for j := 0; j < k; j++ {
			kind := t.Draw(4)
			item := t.Draw(len(c.pool))
			if (kind == 1 || kind == 3) && nshared == 0 {
				kind = 0
			}
			if kind == 1 || kind == 3 {
				item = shared[item%nshared]
			}
			it := c.pool[item]
			op := c19op{Kind: kindNames[kind], Item: item, Src: it.Src, Text: it.Text}
			if kind == 1 {
				// the same shared program is run on different texts by different callers
				op.Var = t.Draw(3)
				op.Text = textVariants(it.Text)[op.Var]
			}
			work[ti] = append(work[ti], op)
			estSteps += c.steps[item]
		}
	}
	randSeed := int64(t.Draw(1<<30))<<8 | int64(t.Draw(256))
	mapSeed := uint64(t.Draw(1 << 30))
	strat := t.Draw(5)
	var plan []simrt.Plan
	switch strat {
	case 1: // access-targeted
		k := t.Range(0, 8)
		at := uint64(0)
		for i := 0; i < k; i++ {
			if i == 0 {
				at += uint64(t.Range(1, 24))
			} else {
				at += uint64(t.Range(1, 4))
			}
			plan = append(plan, simrt.Plan{Kind: simrt.KAccess, At: at, To: t.Draw(n)})
		}
	case 2: // uniform steps
		k := t.Range(0, 6)
		ats := make([]uint64, k)
		for i := range ats {
			ats[i] = uint64(t.Range(1, int(estSteps)+1))
		}
		sort.Slice(ats, func(i, j int) bool { return ats[i] < ats[j] })
		for _, a := range ats {
			plan = append(plan, simrt.Plan{Kind: simrt.KStep, At: a, To: t.Draw(n)})
		}
	case 3: // op boundaries
		k := t.Range(0, 6)
		at := uint64(0)
		for i := 0; i < k; i++ {
			at += uint64(t.Range(1, 3))
			plan = append(plan, simrt.Plan{Kind: simrt.KOp, At: at, To: t.Draw(n)})
		}
	case 4: // mixed: a few of each, plus I/O events
		k := t.Range(0, 4)
		at := uint64(0)
		for i := 0; i < k; i++ {
			at += uint64(t.Range(1, 6))
			plan = append(plan, simrt.Plan{Kind: simrt.KAccess, At: at, To: t.Draw(n)})
		}
		k = t.Range(0, 4)
		ats := make([]uint64, k)
		for i := range ats {
			ats[i] = uint64(t.Range(1, int(estSteps)+1))
		}
		sort.Slice(ats, func(i, j int) bool { return ats[i] < ats[j] })
		for _, a := range ats {
			plan = append(plan, simrt.Plan{Kind: simrt.KStep, At: a, To: t.Draw(n)})
		}
		k = t.Range(0, 3)
		at = 0
		for i := 0; i < k; i++ {
			at += uint64(t.Range(1, 5))
			plan = append(plan, simrt.Plan{Kind: simrt.KIO, At: at, To: t.Draw(n)})
		}
	}

	res := &RunResult{}
	addV := func(oracle, key, detail string) {
		for _, v := range res.Violations {
			if v.Key == key {
				return
			}
		}
		res.Violations = append(res.Violations, Violation{oracle, key, detail})
	}

	// shared programs are compiled by the main goroutine before the phase
	handles := map[int]*libvore.Vore{}
	simrt.Reset(1, nil, mapSeed)
	simrt.Solo()
	rand.Seed(randSeed)
	for _, s := range shared {
		if _, ok := handles[s]; !ok {
			v, _ := doCompile(c.pool[s].Src)
			handles[s] = v
		}
	}
	simrt.Stop()

	outs := make([][]Outcome, n)
	for ti := range outs {
		outs[ti] = make([]Outcome, len(work[ti]))
	}
	simrt.Reset(n, plan, mapSeed)
	rand.Seed(randSeed ^ 0x5a5a)
	var wg sync.WaitGroup
	for ti := 0; ti < n; ti++ {
		ti := ti
		wg.Add(1)
		go func() {
			defer wg.Done()
			defer simrt.Finish(ti)
			defer func() {
				// an Abort (deadlock unwinding) that escapes the op wrappers
				recover()
			}()
			simrt.WaitTurn(ti)
			for j, op := range work[ti] {
				outs[ti][j] = c.execOp(op, handles)
			}
		}()
	}
	simrt.Start(0)
	simrt.WaitAllDone()
	wg.Wait()
	steps := simrt.Steps
	overlap := simrt.Overlap
	swHash := simrt.SwitchHash
	switches := simrt.Switches()
	landedAcc := simrt.Landed[simrt.KAccess]
	probeCompile := simrt.ProbeHit[0]
	probeShared := simrt.ProbeHit[1]
	lockWaits := simrt.LockWaits
	deadlock := simrt.Deadlock
	mraces := append([]string(nil), simrt.MonitorRaces()...)
	simrt.Stop()

	ctx.Count("runs_with_overlap", b2u(overlap > 0))
	ctx.Count("overlapping_ops_switch", overlap)
	ctx.Count("switch_on_access_event", landedAcc)
	ctx.Count("two_tasks_inside_compile", probeCompile)
	ctx.Count("two_tasks_inside_shared_run", probeShared)
	ctx.Count("lock_waits", lockWaits)
	ctx.Count("switches", uint64(len(switches)))
	ctx.Count("strategy_"+stratNames[strat], 1)
	for k := 0; k < 4; k++ {
		ctx.Count("preemptions_landed_"+[]string{"step", "access", "io", "opstart"}[k], simrt.Landed[k])
	}

	// oracle (c): own monitor
	if c.monitorOff {
		ctx.Count("hb_monitor_disabled_unmodelled_sync", 1)
		mraces = nil
	}
	for _, r := range mraces {
		addV("hb-monitor", "monitor:"+r, "unordered conflicting accesses to a package-level variable: "+r)
	}
	// oracle (d): deadlock / abort
	if deadlock {
		addV("deadlock", "deadlock", "all unfinished tasks blocked on locks")
	}
	// oracle (a): solo equality
	evh := mix(swHash, uint64(n))
	var opsig []uint64
	for ti := range work {
		for j, op := range work[ti] {
			got := outs[ti][j]
			want := c.want(op)
			evh = mix(evh, hashStr(got.String()))
			opsig = append(opsig, mix(hashStr(op.Kind), uint64(op.Item), uint64(op.Var)))
			if got.Class == "abort" {
				addV("liveness", "abort:"+got.Detail, fmt.Sprintf("task %d op %d (%s %q) was aborted: %s", ti, j, op.Kind, trunc(op.Src, 60), got.Detail))
				continue
			}
			if !got.Same(want) {
				addV("solo-equality", "solo-mismatch:"+got.Class+":"+coarse(got.Detail), fmt.Sprintf("task %d op %d %s src=%q text=%q: concurrent outcome %q, alone %q", ti, j, op.Kind, trunc(op.Src, 80), trunc(op.Text, 40), trunc(got.String(), 160), trunc(want.String(), 160)))
			}
		}
	}
	// oracle (e): persistent corruption — run every distinct op once more, alone
	seen := map[string]bool{}
	simrt.Reset(1, nil, mapSeed+1)
	simrt.Solo()
	for ti := range work {
		for _, op := range work[ti] {
			id := op.Kind + fmt.Sprint(op.Item, "/", op.Var)
			if seen[id] {
				continue
			}
			seen[id] = true
			got := c.execOp(op, handles)
			want := c.want(op)
			evh = mix(evh, hashStr(got.String()))
			if !got.Same(want) {
				addV("post-phase-solo", "post-mismatch:"+got.Class+":"+coarse(got.Detail), fmt.Sprintf("after the concurrent phase %s src=%q gives %q, alone %q", op.Kind, trunc(op.Src, 80), trunc(got.String(), 160), trunc(want.String(), 160)))
			}
		}
	}
	steps += simrt.Steps
	simrt.Stop()

	sort.Slice(opsig, func(i, j int) bool { return opsig[i] < opsig[j] })
	res.Sig = mix(append(opsig, swHash)...)
	res.EventHash = evh
	res.Steps = steps
	res.Nontrivial = overlap > 0
	d := &c19desc{Tasks: work, Shared: shared, Strategy: stratNames[strat], Plan: plan, RandSeed: randSeed, MapSeed: mapSeed}
	for i, s := range switches {
		if i >= 24 {
			break
		}
		d.Switches = append(d.Switches, fmt.Sprintf("step %d: task %d -> %d", s>>16, (s>>8)&0xff, s&0xff))
	}
	for ti := range outs {
		var l []string
		for _, o := range outs[ti] {
			l = append(l, trunc(o.String(), 100))
		}
		d.Outcomes = append(d.Outcomes, l)
	}
	res.Desc = d
	return res
}

func b2u(b bool) uint64 {
	if b {
		return 1
	}
	return 0
}

func (c *c19) want(op c19op) Outcome {
	switch op.Kind {
	case "compile-run":
		return c.solo[op.Item]
	case "run-shared":
		if c.soloC[op.Item].Class != "ok" || len(c.soloV[op.Item]) <= op.Var {
			return c.soloC[op.Item]
		}
		return c.soloV[op.Item][op.Var]
	case "compile":
		return c.soloC[op.Item]
	default:
		return c.soloF[op.Item]
	}
}

func (c *c19) execOp(op c19op, handles map[int]*libvore.Vore) (out Outcome) {
	budget := 200*c.steps[op.Item] + 100000
	simrt.OpStart(budget)
	defer simrt.OpEnd()
	defer func() {
		if r := recover(); r != nil {
			out = panicOutcome(r)
		}
	}()
	switch op.Kind {
	case "compile-run":
		simrt.ProbeEnter(0)
		v, o := doCompile(op.Src)
		simrt.ProbeLeave(0)
		if v == nil {
			return o
		}
		return doRun(v, op.Text)
	case "compile":
		simrt.ProbeEnter(0)
		_, o := doCompile(op.Src)
		simrt.ProbeLeave(0)
		return o
	case "run-shared":
		v := handles[op.Item]
		if v == nil {
			return c.soloC[op.Item]
		}
		simrt.ProbeEnter(1)
		defer simrt.ProbeLeave(1)
		return doRun(v, op.Text)
	default:
		v := handles[op.Item]
		if v == nil {
			return c.soloC[op.Item]
		}
		simrt.ProbeEnter(1)
		defer simrt.ProbeLeave(1)
		o, _ := doRunFiles(v, []string{c.files[op.Item]}, engine.NOTHING, c.worldR)
		return o
	}
}
