package main

import (
	"encoding/json"
	"os"
	"regexp"
	"sort"
)

// Violation found by an oracle in one run.
type Violation struct {
	Oracle string `json:"oracle"`
	Key    string `json:"key"` // stable site key: what identifies "the same violation"
	Detail string `json:"detail"`
}

// RunResult is what one simulated run reports.
type RunResult struct {
	Violations []Violation
	Nontrivial bool
	Sig        uint64 // signature of the run for the distinct count
	EventHash  uint64 // hash of the run's event log (switches, I/O, outcomes)
	Steps      uint64
	Desc       any // semantic description of the run (for samples and replay files)
}

// RunCtx is what a check gets for one run.
type RunCtx struct {
	T      *Tape
	Phase  string
	Index  uint64
	World  string // private scratch directory of this worker (emptied per run by the check)
	Stats  map[string]uint64
	Race   bool
	Quiet  bool
	Replay bool
}

func (c *RunCtx) Count(name string, n uint64) { c.Stats[name] += n }

// Phase of a check: a batch of runs executed by one binary flavour.
type PhaseSpec struct {
	Name  string
	Runs  uint64
	Race  bool   // needs the -race binary
	Sweep bool   // systematic: run i uses the forced tape prefix SweepPrefix(i)
	Cold  bool   // one fresh worker process per run
	Note  string // shown in evidence
}

type Check interface {
	ID() string
	Phases(tier string) []PhaseSpec
	// Init is called once per process before the first run.
	Init(env *Env) error
	// SweepPrefix gives the forced tape prefix of run i of a sweep phase.
	SweepPrefix(phase string, i uint64) []uint64
	SweepCount(phase string) uint64
	Run(ctx *RunCtx) *RunResult
	Rule() string
	Assumptions() []string
	ProbeNames() []string
}

// Env is per-process configuration.
type Env struct {
	VerifDir  string
	RepoDir   string // uninstrumented /repo (read-only: docs/examples files)
	ScratchS  string
	Inventory string
	CLI       string // instrumented CLI binary
	Self      string
	RaceBin   string
	Tier      string
	Seed      uint64
	Race      bool
}

var checks = map[string]Check{}

func register(c Check) { checks[c.ID()] = c }

// ---- replay files ----

type ReplayFile struct {
	Property  string `json:"property"`
	Phase     string `json:"phase"`
	Race      bool   `json:"race_binary"`
	Sweep     bool   `json:"sweep,omitempty"`
	VerifSeed uint64 `json:"verif_seed"`
	Index     uint64 `json:"run_index"`
	RunSeed   uint64 `json:"run_seed"`
	// Prelude: run indices (space separated) executed first, in this order and
	// regenerated from their seeds, in the same fresh process. Used when the
	// violation depends on state left by earlier runs of the process (C13).
	Prelude   string    `json:"prelude_run_indices,omitempty"`
	Tape      []uint64  `json:"tape"`
	TapeFull  int       `json:"tape_len_before_shrink"`
	Shrunk    int       `json:"shrink_executions"`
	Violation Violation `json:"violation"`
	EventHash string    `json:"event_hash"`
	Desc      any       `json:"run"`
	Note      string    `json:"note,omitempty"`
}

var numArrayRe = regexp.MustCompile(`\[\s*(?:\d+,\s*)*\d+\s*\]`)
var wsRe = regexp.MustCompile(`\s+`)

func writeJSON(path string, v any) error {
	b, err := json.MarshalIndent(v, "", " ")
	if err != nil {
		return err
	}
	// arrays of numbers (tapes, signatures) on one line
	b = numArrayRe.ReplaceAllFunc(b, func(m []byte) []byte { return wsRe.ReplaceAll(m, nil) })
	return os.WriteFile(path, append(b, '\n'), 0644)
}

func mustJSON(v any) []byte {
	b, err := json.Marshal(v)
	if err != nil {
		panic(err)
	}
	return b
}

func readJSON(path string, v any) error {
	b, err := os.ReadFile(path)
	if err != nil {
		return err
	}
	return json.Unmarshal(b, v)
}

// ---- worker output ----

type WorkerViolation struct {
	ChunkFrom uint64    `json:"chunk_from"`
	Index     uint64    `json:"index"`
	RunSeed   uint64    `json:"run_seed"`
	Violation Violation `json:"violation"`
	Tape      []uint64  `json:"tape"`
	TapeFull  int       `json:"tape_full"`
	Shrunk    int       `json:"shrunk"`
	EventHash uint64    `json:"event_hash"`
	Desc      any       `json:"desc"`
}

type WorkerOut struct {
	Phase      string            `json:"phase"`
	From, To   uint64            `json:"-"`
	Runs       uint64            `json:"runs"`
	Nontrivial uint64            `json:"nontrivial"`
	Sigs       []uint64          `json:"sigs"`
	SigMod     uint64            `json:"sig_mod"`
	Stats      map[string]uint64 `json:"stats"`
	SiteHits   []int             `json:"site_hits"`
	Steps      uint64            `json:"steps"`
	Violations []WorkerViolation `json:"violations"`
	NViol      uint64            `json:"n_violating_runs"`
	Samples    []any             `json:"samples"`
	Truncated  bool              `json:"truncated"`
	SimLimit   string            `json:"sim_limit,omitempty"`
	WallS      float64           `json:"wall_s"`
}

func sortedKeys(m map[string]uint64) []string {
	ks := make([]string, 0, len(m))
	for k := range m {
		ks = append(ks, k)
	}
	sort.Strings(ks)
	return ks
}

func runSeed(verifSeed uint64, prop, phase string, index uint64) uint64 {
	return mix(verifSeed, hashStr(prop), hashStr(phase), index)
}
