package main

// C09 — Running an accepted program never crashes, whatever the input
// (claimed for the part that faces a stream).
//
// The searched text reaches the VM only through Seek/Read on a files.Reader,
// and the crashes named in the property sit where that stream ends. A
// (program, text) pair from the corpus — or an accepted program that survived
// a source-stream fault — is run with its text delivered as a string, as a
// file, or inside a directory argument, after faults on the text: EOF at byte
// k (cut), emptied, byte corruption, segment duplication. Oracle: the call
// returns a list within the step budget calibrated on the unfaulted pair; no
// panic of any kind.

import (
	"fmt"
	"math/rand"
	"os"
	"path/filepath"
	"sort"
	"strings"

	"github.com/jmeaster30/vore/libvore/engine"
	"verif/simrt"
)

type c09 struct {
	env     *Env
	pool    []Item
	steps   []uint64
	offsets []uint64
	initV   []Violation // corpus pairs that do not even run unfaulted
}

func init() { register(&c09{}) }

func (c *c09) ID() string { return "C09" }

func (c *c09) Phases(tier string) []PhaseSpec {
	if tier == "thorough" {
		return []PhaseSpec{
			{Name: "cutsweep", Runs: 0, Sweep: true, Note: "every cut position of every corpus pair x {string, file, directory}"},
			{Name: "deliver", Runs: 1200000, Note: "seeded faults on the searched stream, base and fault-surviving programs"},
		}
	}
	return []PhaseSpec{{Name: "deliver", Runs: 40000, Note: "seeded faults on the searched stream, base and fault-surviving programs"}}
}

func (c *c09) Rule() string {
	return "one run = an accepted program (a corpus program, or one that was accepted after a loss/duplication/swap/corruption/EOF fault on its own source and has no `loop` and no subroutine) run on its sample text after 0-2 faults on the text {EOF at byte k, emptied, byte corruption with NUL/newline/CR/0xff/bit flip/random, segment duplication}, delivered through Run(string), RunFiles([file], NOTHING) or RunFiles([directory of regular files], NOTHING); non-trivial = the text or the program was changed by a fault, or the delivery is a file/directory of boundary size; distinct = distinct (program, delivered text, delivery) hashes among those"
}

func (c *c09) Assumptions() []string {
	return []string{
		"only the stream-facing half of the property is claimed: the 'all accepted programs' quantifier is sampled through the corpus and fault-surviving programs, not generated",
		"fault-surviving programs are used only if they contain no `loop` statement and no subroutine, so that termination is not in question",
		"step budget = 200 x the unfaulted pair + 100000 logical steps; exceeding it is a violation only for the unmodified program on a prefix of its own text, otherwise the run is discarded (termination in general is C10, not claimed)",
		"a directory argument holds regular files only",
		"every file RunFiles opens for reading is closed again when it returns (seen in the file-system call history): otherwise a directory with more files than the descriptor limit ends in the I/O panic the property excludes",
	}
}

func (c *c09) ProbeNames() []string {
	return []string{"text_cut_mid_match", "text_emptied", "text_corrupted", "delivery_string", "delivery_file", "delivery_directory", "program_survived_source_fault", "empty_file_delivered", "zero_matches_result", "replace_program_run", "boundary_sized_input", "directory_with_many_files"}
}

func (c *c09) SweepPrefix(phase string, i uint64) []uint64 {
	if len(c.offsets) == 0 {
		return nil
	}
	total := c.offsets[len(c.offsets)-1]
	if i >= 3*total {
		return nil
	}
	delivery := i / total
	j := i % total
	it := sort.Search(len(c.offsets), func(x int) bool { return c.offsets[x] > j })
	k := j
	if it > 0 {
		k = j - c.offsets[it-1]
	}
	// draw order: item, mutate-program(0=no), delivery, nfaults(=1 -> draw 1), kind(0=cut), k
	return []uint64{uint64(it), 0, delivery, 1, 0, k}
}

func (c *c09) SweepCount(string) uint64 {
	if len(c.offsets) == 0 {
		return 0
	}
	return 3 * c.offsets[len(c.offsets)-1]
}

func (c *c09) Init(env *Env) error {
	c.env = env
	corp, err := loadCorpus(env.VerifDir)
	if err != nil {
		return err
	}
	extra := []Item{
		{Name: "c09-empty-capture-backref", Src: "find all 'b' (maybe 'a') = x x", Text: "b ba baa b"},
		{Name: "c09-backref-eof", Src: "find all (at least 1 letter) = w ' ' w", Text: "ab ab cd c"},
		{Name: "c09-anchors-eof", Src: "find all letter line end", Text: "ab\ncd"},
		{Name: "c09-word-end-eof", Src: "find all word start at least 1 letter word end", Text: "hello world"},
		{Name: "c09-not-eof", Src: "find all 'a' not 'b'", Text: "ab ac a"},
		{Name: "c09-notin-eof", Src: "find all 'a' not in 'b', 'c'", Text: "ab ad a"},
		{Name: "c09-any-eof", Src: "find all 'x' any any", Text: "xab xa x"},
		{Name: "c09-transform-head-tail", Src: "set t to transform\n  return head match + tail match\nend\nreplace all at least 1 letter with t", Text: "a bc def"},
		{Name: "c09-transform-num", Src: "set t to transform\n  return match * 2\nend\nreplace all at least 1 any with t", Text: "12 ab 7"},
		{Name: "c09-pred", Src: "set p to pattern at least 1 any begin return match > 5 end\nfind all p", Text: "12 3 x"},
		{Name: "c09-whole-file", Src: "find all whole file", Text: "abc"},
		{Name: "c09-caseless-eof", Src: "find all caseless 'abc' caseless 'd'", Text: "ABCd abc"},
		{Name: "c09-range-eof", Src: "find all 'k' in 'a' to 'f'", Text: "ka kz k"},
		// transforms and predicates applied to arbitrary single characters and short runs
		{Name: "c09-num-each-char", Src: "set t to transform\n  return match * 2\nend\nreplace all any with t", Text: "+-1 a.9 -"},
		{Name: "c09-num-signs", Src: "set t to transform\n  return match + 1 - 2\nend\nreplace all at least 1 not whitespace with t", Text: "+ - +7 -3 10 - x"},
		{Name: "c09-pred-each-char", Src: "set p to pattern any begin return match >= 0 end\nfind all p", Text: "+-0a 9"},
		{Name: "c09-pred-signed", Src: "set p to pattern maybe (in '+', '-') at least 0 digit begin return match > 5 end\nfind all p", Text: "+7 - 10 + 3-"},
		{Name: "c09-compare-str-num", Src: "set t to transform\n  if match == 0 then\n    return 'zero'\n  end\n  return match % 3\nend\nreplace all at least 1 not whitespace with t", Text: "0 + 12 - x 7"},
		{Name: "c09-head-tail-each", Src: "set t to transform\n  return tail match + head match\nend\nreplace all any with t", Text: "ab +"},
		// `with` parts made only of variables that may not be bound for a given match
		{Name: "c09-with-unbound-alt", Src: "replace all (('a') = x) or 'b' with x", Text: "abab ba"},
		{Name: "c09-with-unbound-maybe", Src: "replace all 'k' maybe ('z' = y) with y", Text: "k kz kk"},
		{Name: "c09-with-hashmap-var", Src: "replace all at least 1 (digit = d) named ds with ds", Text: "12 3 x"},
		{Name: "c09-with-never-captured", Src: "replace all 'a' with nothing", Text: "aba"},
		{Name: "c09-with-two-vars", Src: "replace all (('a') = x) or (('b') = y) with x y", Text: "ab c ba"},
		// several commands over one file, a replace first (readers and writers of one file in sequence)
		{Name: "c09-replace-then-find", Src: "replace all 'a' with 'b'\nfind all 'b'\nfind all 'a'", Text: "abab"},
	}
	var total uint64
	for _, it := range append(extra, corp.Items...) {
		if len(it.Text) > 200 {
			it.Text = it.Text[:200]
		}
		simrt.Reset(1, nil, 3)
		simrt.Solo()
		rand.Seed(1)
		simrt.OpStart(8000000)
		o := doCompileRun(it.Src, it.Text)
		simrt.OpEnd()
		st := simrt.Steps
		simrt.Stop()
		if os.Getenv("VORESIM_DEBUG") != "" {
			fmt.Fprintf(os.Stderr, "C09 base %-40s class=%s steps=%d\n", trunc(it.Name, 40), o.Class, st)
		}
		if o.Class == "abort" {
			// every corpus pair runs in well under a twentieth of this budget on a healthy tree
			c.initV = append(c.initV, Violation{"returns", "run-abort:base:" + o.Detail, fmt.Sprintf("the unfaulted corpus pair %q (program %q on %q) did not return within 8000000 steps (%s)", it.Name, trunc(it.Src, 120), trunc(it.Text, 60), o.Detail)})
			continue
		}
		if o.Class == "error" {
			continue // not accepted
		}
		c.pool = append(c.pool, it)
		c.steps = append(c.steps, st)
		total += uint64(len(it.Text)) + 1
		c.offsets = append(c.offsets, total)
	}
	if len(c.pool) < 40 {
		return fmt.Errorf("C09: too few accepted base programs: %d", len(c.pool))
	}
	return nil
}

type c09desc struct {
	Program  string   `json:"program"`
	Mutated  bool     `json:"program_survived_a_source_fault"`
	Delivery string   `json:"delivery"`
	Faults   []string `json:"text_faults"`
	Text     string   `json:"delivered_text"`
	Outcome  string   `json:"outcome"`
}

// leakedReaders reports the files that were opened read-only during the op (in its file-system
// call history) and not closed again by the time it returned. A finalizer closing them later
// does not count: until then a directory with more files than the descriptor limit cannot be searched.
func leakedReaders(events []simrt.IOEvent) (int, string) {
	open := map[string]int{}
	var order []string
	for _, e := range events {
		switch e.Op {
		case "open":
			if e.Flags == os.O_RDONLY {
				if open[e.Path] == 0 {
					order = append(order, e.Path)
				}
				open[e.Path]++
			}
		case "close":
			if open[e.Path] > 0 {
				open[e.Path]--
			}
		}
	}
	n, first := 0, ""
	for _, p := range order {
		if open[p] > 0 {
			n += open[p]
			if first == "" {
				first = filepath.Base(p)
			}
		}
	}
	return n, first
}

func mutateSource(t *Tape, src string) string {
	b := []byte(src)
	n := len(b)
	if n < 2 {
		return src
	}
	switch t.Draw(5) {
	case 0:
		return string(b[:t.Draw(n+1)])
	case 1, 2, 3:
		bd := tokenBoundaries(src)
		i := t.Draw(len(bd) - 1)
		a, e := bd[i], bd[i+1]
		switch t.Draw(3) {
		case 0:
			return string(b[:a]) + string(b[e:])
		case 1:
			return string(b[:e]) + string(b[a:e]) + string(b[e:])
		default:
			f := e
			if i+2 < len(bd) {
				f = bd[i+2]
			}
			return string(b[:a]) + string(b[e:f]) + string(b[a:e]) + string(b[f:])
		}
	default:
		k := t.Draw(n)
		c := append([]byte{}, b...)
		c[k] = specials[t.Draw(len(specials))]
		return string(c)
	}
}

func (c *c09) Run(ctx *RunCtx) *RunResult {
	t := ctx.T
	res := &RunResult{}
	addV := func(oracle, key, detail string) {
		if !hasKey(res.Violations, key) {
			res.Violations = append(res.Violations, Violation{oracle, key, detail})
		}
	}
	for _, v := range c.initV {
		addV(v.Oracle, v.Key, v.Detail)
	}
	pi := t.Draw(len(c.pool))
	it := c.pool[pi]
	src := it.Src
	mutated := false
	if t.Draw(4) == 1 {
		m := mutateSource(t, src)
		low := strings.ToLower(m)
		if m != src && !strings.Contains(low, "loop") && !strings.Contains(m, "{") && maxDigitRun(m) <= maxDigitRun(src) {
			src = m
			mutated = true
		}
	}
	delivery := []string{"string", "file", "directory"}[t.Draw(3)]
	text := []byte(it.Text)
	nf := t.Draw(3)
	var faults []string
	changed := false
	prefixOnly := true
	growth := uint64(1)
	for f := 0; f < nf; f++ {
		n := len(text)
		switch t.Draw(6) {
		case 0, 1: // EOF at k
			k := t.Draw(n + 1)
			if k < n {
				changed = true
				ctx.Count("text_cut_mid_match", 1)
			}
			text = text[:k]
			faults = append(faults, fmt.Sprintf("eof@%d", k))
			ctx.Count("fault_eof", 1)
		case 2:
			if n > 0 {
				changed = true
			}
			text = nil
			faults = append(faults, "emptied")
			ctx.Count("fault_emptied", 1)
			ctx.Count("text_emptied", 1)
		case 3, 4:
			if n == 0 {
				continue
			}
			k := t.Draw(n)
			var nb byte
			switch t.Draw(6) {
			case 0:
				nb = 0
			case 1:
				nb = '\n'
			case 2:
				nb = '\r'
			case 3:
				nb = 0xff
			case 4:
				nb = text[k] ^ (1 << uint(t.Draw(8)))
			default:
				nb = byte(t.Draw(256))
			}
			text = append([]byte{}, text...)
			if text[k] != nb {
				changed = true
			}
			text[k] = nb
			prefixOnly = false
			faults = append(faults, fmt.Sprintf("corrupt@%d=0x%02x", k, nb))
			ctx.Count("fault_corruption", 1)
			ctx.Count("text_corrupted", 1)
		default:
			if n == 0 {
				continue
			}
			a := t.Draw(n)
			b := a + t.Range(1, 20)
			if b > n {
				b = n
			}
			text = append(append(append([]byte{}, text[:b]...), text[a:b]...), text[b:]...)
			prefixOnly = false
			faults = append(faults, fmt.Sprintf("dup[%d,%d)", a, b))
			ctx.Count("fault_duplication", 1)
			changed = true
			growth = 2
		}
	}
	// boundary-sized files: pad in front so that the interesting text sits
	// beyond the first read window of a file-backed reader
	if t.Draw(40) == 1 {
		target := []int{2100, 4096, 4097, 6000, 8193, 70000}[t.Draw(6)]
		if target > 60000 && t.Draw(4) != 1 {
			target = 8193 // the 64 KiB case is expensive: keep it rare
		}
		if len(text) < target {
			pad := make([]byte, 0, target)
			i := uint64(0)
			for len(pad) < target-len(text) {
				if target > 60000 {
					// one long stretch in which hardly any program finds anything
					pad = append(pad, "QQQQQQQQQQQQQQQQ"...)
					continue
				}
				pad = append(pad, fillerWords[mix(i, 9)%uint64(len(fillerWords))]...)
				pad = append(pad, ' ')
				i++
			}
			if g := uint64(target/(len(it.Text)+1)) + 2; g > growth {
				growth = g // the step budget follows the size of the delivered text
			}
			text = append(pad[:target-len(text)], text...)
			prefixOnly = false
			changed = true
			faults = append(faults, fmt.Sprintf("padded-to-%d", target))
			ctx.Count("boundary_sized_input", 1)
		}
	}
	d := &c09desc{Program: trunc(src, 300), Mutated: mutated, Delivery: delivery, Faults: faults, Text: trunc(string(text), 200)}
	res.Desc = d
	simrt.Reset(1, soloPlan(t, treeSpawnsCached(c.env), 5000), uint64(t.Draw(1<<16))+1)
	simrt.Solo()
	rand.Seed(int64(t.Draw(1 << 16)))
	budget := growth*(200*c.steps[pi]) + 100000
	if budget > 40000000 {
		budget = 40000000
	}
	simrt.OpStart(budget)
	v, oc := doCompile(src)
	simrt.OpEnd()
	if v == nil {
		// not accepted: nothing to run (C08 judges compile outcomes)
		simrt.Stop()
		d.Outcome = "program not accepted: " + trunc(oc.String(), 100)
		ctx.Count("mutated_program_rejected", 1)
		res.EventHash = mix(hashStr(src), 1)
		return res
	}
	if mutated {
		ctx.Count("program_survived_source_fault", 1)
	}
	if strings.Contains(strings.ToLower(src), "replace") {
		ctx.Count("replace_program_run", 1)
	}
	var out Outcome
	manyFiles := 0
	simrt.ClearIO()
	simrt.OpStart(budget)
	switch delivery {
	case "string":
		out = doRun(v, string(text))
	case "file":
		fn := filepath.Join(ctx.World, "input.txt")
		if err := os.WriteFile(fn, text, 0644); err != nil {
			panic(err)
		}
		out, _ = doRunFiles(v, []string{fn}, engine.NOTHING, ctx.World)
	default:
		dir := filepath.Join(ctx.World, "indir")
		os.RemoveAll(dir)
		os.MkdirAll(dir, 0755)
		os.WriteFile(filepath.Join(dir, "a.txt"), text, 0644)
		if t.Draw(2) == 1 {
			os.WriteFile(filepath.Join(dir, "b.txt"), []byte(it.Text), 0644)
		}
		if t.Draw(3) == 1 {
			os.WriteFile(filepath.Join(dir, "empty"), nil, 0644)
		}
		if t.Draw(10) == 1 {
			// a directory with more entries than any worker pool has lanes or batches,
			// now and then with more entries than the process may hold descriptors
			n := t.Range(33, 47)
			for k := 0; k < n; k++ {
				os.WriteFile(filepath.Join(dir, fmt.Sprintf("m%03d.txt", k)), []byte(it.Text[:len(it.Text)*(k%3)/3]), 0644)
			}
			ctx.Count("directory_with_many_files", 1)
			manyFiles = n
		}
		out, _ = doRunFiles(v, []string{dir}, engine.NOTHING, ctx.World)
	}
	simrt.OpEnd()
	leaked, leakedFirst := 0, ""
	if out.Class == "ok" && delivery != "string" && simrt.IODropped == 0 {
		// (a history that overflowed the event log is not judged)
		leaked, leakedFirst = leakedReaders(simrt.IOEvents())
	}
	res.Steps = simrt.Steps
	simrt.Stop()
	ctx.Count("delivery_"+delivery, 1)
	if len(text) == 0 && delivery != "string" {
		ctx.Count("empty_file_delivered", 1)
	}
	if out.Class == "ok" && out.N == 0 {
		ctx.Count("zero_matches_result", 1)
	}
	d.Outcome = trunc(out.String(), 200)
	res.Nontrivial = changed || mutated || (delivery != "string" && len(text) == 0)
	res.EventHash = mix(hashStr(src), hashStr(string(text)), hashStr(delivery), hashStr(out.String()))
	res.Sig = mix(hashStr(src), hashStr(string(text)), hashStr(delivery))
	where := fmt.Sprintf("program %q on text %q (faults %v) delivered as %s", trunc(src, 200), trunc(string(text), 120), faults, delivery)
	if leaked > 0 {
		addV("descriptor-balance", "searched-files-left-open", fmt.Sprintf("%s => returned with %d searched file(s) still open (first: %s); a directory or glob with more files than the descriptor limit then ends in an I/O panic", where, leaked, leakedFirst))
	}
	switch out.Class {
	case "panic":
		addV("no-panic", "run-panic:"+panicKey(out.Detail), where+" => panic "+out.Detail)
	case "abort":
		// The budget is calibrated on the unfaulted pair. Only a run of the
		// unmodified program on a prefix of its own text can be held to it;
		// a fault-surviving program or a corrupted/duplicated text may
		// legitimately backtrack much longer (termination is C10, not claimed).
		if !mutated && prefixOnly && manyFiles == 0 {
			addV("returns", "run-abort:"+out.Detail, where+" => did not return within its budget ("+out.Detail+")")
		} else {
			ctx.Count("discarded_budget", 1)
			res.Nontrivial = false
		}
	}
	return res
}
