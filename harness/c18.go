package main

// C18 — The CLI delivers the library's results under every documented flag
// combination.
//
// The instrumented `vore` binary runs as a child process inside a scratch
// world (cwd = world root), 1–5 invocations per history over the same world.
// Each invocation is drawn from the documented cross product of flags; the
// reference model is: flag specification x library result (computed
// in-process on the pre-state, mode NOTHING) x C06's file-system delta model,
// checked on exit status, stdout, the world snapshot and the child's logged
// file-system calls.

import (
	"bytes"
	"encoding/json"
	"fmt"
	"os"
	"os/exec"
	"path/filepath"
	"reflect"
	"sort"
	"strconv"
	"strings"
	"time"

	"github.com/jmeaster30/vore/libvore/engine"
	"verif/simrt"
)

type c18 struct {
	env   *Env
	progs []*c06prog
}

func init() { register(&c18{}) }

func (c *c18) ID() string { return "C18" }

func (c *c18) Phases(tier string) []PhaseSpec {
	if tier == "thorough" {
		return []PhaseSpec{{Name: "cli", Runs: 60000, Note: "histories of CLI invocations on scratch worlds"}}
	}
	return []PhaseSpec{{Name: "cli", Runs: 4000, Note: "histories of CLI invocations on scratch worlds"}}
}

func (c *c18) Rule() string {
	return "one run = a scratch world (files a.txt b.txt c.dat sub/x.txt ..., sometimes stale out.json/fmt.json longer than any new document, stale .vored) and a history of 1-5 invocations of the instrumented vore binary drawn from {-com | -src file} x {none, -json, -formatted-json} x -json-file? x -formatted-json-file? x -replace-mode {NEW, NOTHING, OVERWRITE, absent}? x -no-output? x {find, replace, uncompilable} programs x -files {one file, relative glob, sub-directory glob, absolute glob, nothing matching}, plus the invalid combinations; each compared with the reference model (exit status, exactly-one-JSON-document on stdout equal as a document to the library result per file, named JSON files, C06 file-system delta, no write outside the write-set in the child's file-system call log); non-trivial = a valid invocation with at least one match whose JSON or file-system delta was compared, or an invalid one whose world was checked; distinct = distinct (world, argv history) hashes among those"
}

func (c *c18) Assumptions() []string {
	return []string{
		"expected matches come from the same instrumented library called in-process on the pre-state in mode NOTHING; the expected document is encoding/json of those matches (not Matches.Json)",
		"where the documentation is silent the model under-constrains: with -no-output only exit status and replace-mode delta; with zero matches stdout and the named JSON files are unconstrained; file order across files is not asserted",
		"the expected file list of the simple patterns used here (exact name, prefix*, *.ext, sub/*.ext, absolute variants) comes from a segment-wise star matcher; pattern subtleties are C20's",
		"a child that does not exit within 60 s is reported as a liveness violation",
	}
}

func (c *c18) ProbeNames() []string {
	return []string{"json_stdout_compared", "formatted_json_stdout_compared", "json_file_compared", "formatted_json_file_compared", "stale_json_file_longer_than_document", "invalid_invocation_checked", "compile_error_invocation_checked", "glob_selected_several_files", "absolute_glob", "src_file_program", "no_output_flag", "mode_default_new_replace", "mode_overwrite_replace", "mode_nothing_replace", "no_file_matches_pattern", "invocation_after_earlier_write", "multi_command_program", "document_order_compared", "src_file_with_crlf", "huge_input_file", "huge_document_compared"}
}

func (c *c18) SweepPrefix(string, uint64) []uint64 { return nil }
func (c *c18) SweepCount(string) uint64            { return 0 }

func (c *c18) Init(env *Env) error {
	c.env = env
	// the harness itself holds documents of tens of megabytes (decoded twice) in the huge-file
	// runs: the heap safety limit, which counts the whole process, is set higher for this check
	simrt.DefaultHeapLimit = 4 << 30
	if env.CLI == "" {
		return fmt.Errorf("C18 needs the instrumented CLI binary")
	}
	for _, p := range c06progs {
		if len(p.Cmds) == 1 {
			c.progs = append(c.progs, &c06prog{Defs: p.Defs, Cmds: p.Cmds})
		}
	}
	c.progs = append(c.progs,
		&c06prog{Cmds: []string{"find all 'an'"}},
		&c06prog{Cmds: []string{"find all at least 1 digit"}},
		&c06prog{Cmds: []string{"find all (letter = first) at least 1 letter"}},
		&c06prog{Cmds: []string{"find all at least 1 (digit = d) named ds"}},
		&c06prog{Cmds: []string{"find top 2 'a'"}},
		&c06prog{Cmds: []string{"find all 'qqqq'"}},
		&c06prog{Cmds: []string{"find all any"}},                                                            // one match per byte
		&c06prog{Cmds: []string{"find all 'an\nb'"}},                                                        // a string literal that runs over a line end
		&c06prog{Cmds: []string{"find all 'an' or '" + strings.Repeat("x", 66000) + "'", "find all digit"}}, // a source line longer than 64 KiB
		// several commands: results are command-major over the file list; a replace command only last,
		// so that earlier commands see the original content in every mode
		&c06prog{Cmds: []string{"find all 'an'", "find all digit"}},
		&c06prog{Cmds: []string{"find top 1 'a'", "find all 'b'", "find all 'x'"}},
		&c06prog{Cmds: []string{"find all letter", "replace all 'a' with 'xyz'"}},
		&c06prog{Defs: "set p to pattern 'a' or 'b'\n", Cmds: []string{"find all p", "replace all p p with 'P'"}},
	)
	return nil
}

var c18bad = []string{"find all nope", "find all at least", "find all 'unterminated", "replace all 'a'", "set f to transform\n  return 1 == 1\nend\nreplace all 'a' with f", "bogus"}

// starMatch: does name match pattern where * is any run of characters.
func starMatch(pat, name string) bool {
	if pat == "" {
		return name == ""
	}
	if pat[0] == '*' {
		for i := 0; i <= len(name); i++ {
			if starMatch(pat[1:], name[i:]) {
				return true
			}
		}
		return false
	}
	return name != "" && pat[0] == name[0] && starMatch(pat[1:], name[1:])
}

type c18inv struct {
	Argv     []string `json:"argv"`
	Valid    bool     `json:"documented_valid"`
	Why      string   `json:"kind"`
	Exit     int      `json:"exit_status"`
	Stdout   string   `json:"stdout_head,omitempty"`
	Stderr   string   `json:"stderr_head,omitempty"`
	Mutating []string `json:"mutating_fs_calls,omitempty"`
}

type c18desc struct {
	World map[string]string `json:"world_before"`
	Invs  []c18inv          `json:"invocations"`
}

func parseIOLog(path string) []simrt.IOEvent {
	b, err := os.ReadFile(path)
	if err != nil {
		return nil
	}
	var out []simrt.IOEvent
	for _, line := range strings.Split(string(b), "\n") {
		f := strings.Split(line, "\t")
		if len(f) < 5 {
			continue
		}
		p1, _ := strconv.Unquote(f[1])
		p2, _ := strconv.Unquote(f[2])
		fl, _ := strconv.Atoi(f[3])
		n, _ := strconv.ParseInt(f[4], 10, 64)
		out = append(out, simrt.IOEvent{Op: f[0], Path: p1, Path2: p2, Flags: fl, N: n})
	}
	return out
}

// oneJSONDoc decodes b as exactly one JSON document (plus whitespace).
func oneJSONDoc(b []byte) (any, error) {
	dec := json.NewDecoder(bytes.NewReader(b))
	var v any
	if err := dec.Decode(&v); err != nil {
		return nil, err
	}
	var extra any
	if err := dec.Decode(&extra); err == nil {
		return nil, fmt.Errorf("more than one JSON document")
	} else if err.Error() != "EOF" {
		return nil, fmt.Errorf("trailing data after the document: %v", err)
	}
	return v, nil
}

// groupByFile normalises filenames and groups match objects per file.
func groupByFile(doc any) (map[string][]any, error) {
	l, ok := doc.([]any)
	if !ok {
		return nil, fmt.Errorf("document is not a list")
	}
	out := map[string][]any{}
	for _, e := range l {
		m, ok := e.(map[string]any)
		if !ok {
			return nil, fmt.Errorf("list element is not an object")
		}
		fn, _ := m["filename"].(string)
		fn = filepath.Clean(fn)
		m["filename"] = fn
		out[fn] = append(out[fn], m)
	}
	return out, nil
}

func (c *c18) Run(ctx *RunCtx) *RunResult {
	t := ctx.T
	res := &RunResult{}
	addV := func(oracle, key, detail string) {
		if !hasKey(res.Violations, key) {
			res.Violations = append(res.Violations, Violation{oracle, key, detail})
		}
	}
	root := filepath.Join(ctx.World, "w")
	os.RemoveAll(root)
	os.MkdirAll(filepath.Join(root, "sub"), 0755)
	iolog := filepath.Join(ctx.World, "iolog")
	model := map[string][]byte{}
	cand := []string{"a.txt", "b.txt", "c.dat", "sub/x.txt", "sub/y.txt", "ab.txt", "a%d 100%.txt"}
	nf := t.Range(1, len(cand))
	for i := 0; i < nf; i++ {
		var content []byte
		switch t.Draw(10) {
		case 0:
			content = nil
		case 1:
			content = c06bigContent([]int{4096, 4097, 8193}[t.Draw(3)], uint64(t.Draw(100)))
		default:
			content = c06content(t, t.Range(1, 120))
		}
		model[cand[i]] = content
	}
	hugeOdds := 400
	if c.env.Tier == "thorough" {
		hugeOdds = 150
	}
	if t.Draw(hugeOdds) == 1 {
		// far more matches than usual: hundreds of thousands, a JSON document of tens of megabytes
		// with multi-byte characters in it
		var hb []byte
		word := strings.Repeat("\u00e9", 20+t.Draw(30))
		for len(hb) < 150000 {
			hb = append(hb, "a b1 an "...)
			if len(hb)%7 == 0 {
				hb = append(hb, word...)
				hb = append(hb, ' ')
			}
		}
		model["hug\u00e9.txt"] = hb
		ctx.Count("huge_input_file", 1)
	}
	if t.Draw(3) == 0 {
		model["out.json"] = []byte(strings.Repeat("{\"stale\": true, \"pad\": \"xxxxxxxxxxxxxxxx\"}\n", 300))
	}
	if t.Draw(3) == 0 {
		model["fmt.json"] = []byte(strings.Repeat("[\n\t\"stale\"\n]\n", 900))
	}
	if t.Draw(4) == 0 {
		model["a.txt.vored"] = []byte(strings.Repeat("STALE", 200))
	}
	for n, b := range model {
		os.WriteFile(filepath.Join(root, n), b, 0644)
	}
	d := &c18desc{World: map[string]string{}}
	for n, b := range model {
		d.World[n] = trunc(string(b), 80)
	}
	ninv := t.Range(1, 5)
	evh := uint64(5)
	var sig []uint64
	wrote := false
	for k := 0; k < ninv; k++ {
		// ---- draw the invocation ----
		invalidKind := 0
		if t.Draw(5) == 0 {
			invalidKind = 1 + t.Draw(6)
		}
		progKind := t.Draw(6) // 0..3 valid program, 4 uncompilable... see below
		var prog *c06prog
		var src string
		compileFails := false
		if progKind == 5 {
			src = c18bad[t.Draw(len(c18bad))]
			compileFails = true
		} else {
			prog = c.progs[t.Draw(len(c.progs))]
			src = prog.source()
		}
		useSrcFile := t.Draw(3) == 0
		if useSrcFile && prog != nil && t.Draw(3) == 1 {
			// the same program saved with CRLF line ends
			cr := &c06prog{Defs: strings.ReplaceAll(prog.Defs, "\n", "\r\n"), Sep: "\r\n"}
			for _, cm := range prog.Cmds {
				cr.Cmds = append(cr.Cmds, strings.ReplaceAll(cm, "\n", "\r\n"))
			}
			prog = cr
			src = prog.source()
			ctx.Count("src_file_with_crlf", 1)
		}
		var argv []string
		if useSrcFile {
			os.WriteFile(filepath.Join(root, "prog.vore"), []byte(src), 0644)
			model["prog.vore"] = []byte(src)
			argv = append(argv, "-src", "prog.vore")
			ctx.Count("src_file_program", 1)
		} else {
			argv = append(argv, "-com", src)
		}
		// files pattern
		var pat string
		abs := false
		switch t.Draw(8) {
		case 0:
			pat = "a.txt"
		case 1:
			pat = "*.txt"
		case 2:
			pat = "sub/*.txt"
		case 3:
			pat = "a*.txt"
		case 4:
			pat = "*.dat"
		case 5:
			pat = "nomatch*.zzz"
		case 6:
			pat = "*.txt"
			abs = true
		default:
			pat = "b.txt"
		}
		if _, huge := model["hug\u00e9.txt"]; huge && invalidKind == 0 && !compileFails && t.Draw(2) == 1 {
			// the huge file, every byte a match: more than a hundred thousand matches in one document
			pat, abs = "hug\u00e9.txt", false
			for _, p := range c.progs {
				if len(p.Cmds) == 1 && p.Cmds[0] == "find all any" {
					prog = p
					src = p.source()
				}
			}
			argv = []string{"-com", src}
			useSrcFile = false
		}
		patArg := pat
		if abs {
			patArg = root + "/" + pat
			ctx.Count("absolute_glob", 1)
		}
		argv = append(argv, "-files", patArg)
		outKind := t.Draw(3) // 0 none 1 -json 2 -formatted-json
		if outKind == 1 {
			argv = append(argv, "-json")
		} else if outKind == 2 {
			argv = append(argv, "-formatted-json")
		}
		jsonFile, fjsonFile := "", ""
		if t.Draw(3) == 0 {
			jsonFile = "out.json"
			argv = append(argv, "-json-file", jsonFile)
		}
		if t.Draw(3) == 0 {
			fjsonFile = "fmt.json"
			argv = append(argv, "-formatted-json-file", fjsonFile)
		}
		mode := engine.NEW
		switch t.Draw(4) {
		case 1:
			argv = append(argv, "-replace-mode", "NEW")
		case 2:
			argv = append(argv, "-replace-mode", "OVERWRITE")
			mode = engine.OVERWRITE
		case 3:
			argv = append(argv, "-replace-mode", "NOTHING")
			mode = engine.NOTHING
		}
		noOutput := t.Draw(5) == 0
		if noOutput {
			argv = append(argv, "-no-output")
			ctx.Count("no_output_flag", 1)
		}
		why := "valid"
		switch invalidKind {
		case 1: // both -com and -src
			os.WriteFile(filepath.Join(root, "prog.vore"), []byte(src), 0644)
			model["prog.vore"] = []byte(src)
			argv = append([]string{"-com", src, "-src", "prog.vore"}, argv[2:]...)
			why = "invalid: both -com and -src"
		case 2: // neither
			argv = argv[2:]
			why = "invalid: neither -com nor -src"
		case 3:
			argv = append(argv, "-json", "-formatted-json")
			why = "invalid: both -json and -formatted-json"
		case 4:
			argv = append(argv, "-replace-mode", []string{"SOMETIMES", "CONFIRM", "new", "Overwrite", "0"}[t.Draw(5)])
			why = "invalid: unknown replace mode"
		case 5: // no -files
			var a2 []string
			for i := 0; i < len(argv); i++ {
				if argv[i] == "-files" {
					i++
					continue
				}
				a2 = append(a2, argv[i])
			}
			argv = a2
			why = "invalid: no -files"
		case 6: // missing -src file
			argv = append([]string{"-src", "missing.vore"}, argv[2:]...)
			why = "invalid: -src file does not exist"
		}
		if invalidKind == 0 && compileFails {
			why = "compile error"
		}
		// dedupe -json given twice by invalid kind 3 with outKind already set: still invalid

		// ---- expected ----
		before := snapshotDir(root)
		var expFiles []string
		{
			dir, base := "", pat
			if i := strings.LastIndex(pat, "/"); i >= 0 {
				dir, base = pat[:i], pat[i+1:]
			}
			for n := range before {
				nd, nb := "", n
				if i := strings.LastIndex(n, "/"); i >= 0 {
					nd, nb = n[:i], n[i+1:]
				}
				if nd == dir && starMatch(base, nb) {
					expFiles = append(expFiles, n)
				}
			}
			sort.Strings(expFiles)
		}
		valid := invalidKind == 0 && !compileFails
		var expDoc map[string][]any
		var expList any
		nExp := 0
		isReplace := false
		expModel := map[string][]byte{}
		for n, b := range before {
			expModel[n] = b
		}
		writeSet := map[string]bool{}
		aborted := false
		if valid {
			prog.compile()
			if prog.bad {
				valid = false
				compileFails = true
				why = "compile error"
			}
		}
		if valid && len(expFiles) > 0 {
			isReplace = prog.isReplace(len(prog.Cmds) - 1)
			if len(prog.Cmds) > 1 {
				ctx.Count("multi_command_program", 1)
			}
			absFiles := make([]string, len(expFiles))
			for i, f := range expFiles {
				absFiles[i] = filepath.Join(root, f)
			}
			simrt.Reset(1, nil, 1)
			simrt.Solo()
			simrt.OpStart(600000000)
			o, ms := doRunFiles(prog.whole, absFiles, engine.NOTHING, "")
			simrt.OpEnd()
			res.Steps += simrt.Steps
			simrt.Stop()
			if o.Class != "ok" {
				aborted = true
			} else {
				nExp = len(ms)
				b, err := json.Marshal([]engine.Match(ms))
				if err != nil {
					aborted = true
				} else {
					var doc any
					json.Unmarshal(b, &doc)
					expDoc, _ = groupByFile(doc)
					expList = doc // filenames normalised in place by groupByFile
				}
				if isReplace && mode != engine.NOTHING {
					per := map[string]engine.Matches{}
					for _, m := range ms {
						if m.Replacement.HasValue() { // the matches of the (last) replace command
							per[m.Filename] = append(per[m.Filename], m)
						}
					}
					for i, f := range expFiles {
						T := splice(before[f], per[absFiles[i]])
						if mode == engine.NEW {
							expModel[f+".vored"] = T
							writeSet[f+".vored"] = true
						} else {
							expModel[f] = T
							writeSet[f] = true
						}
					}
				}
			}
		}
		if aborted {
			ctx.Count("discarded_reference_failed", 1)
			d.Invs = append(d.Invs, c18inv{Argv: argv, Why: "reference library call did not return normally (run discarded)"})
			break
		}

		// ---- run the child ----
		os.Remove(iolog)
		cmd := exec.Command(c.env.CLI, argv...)
		cmd.Dir = root
		cmd.Env = append(os.Environ(), "VORESIM_IOLOG="+iolog)
		var so, se bytes.Buffer
		cmd.Stdout = &so
		cmd.Stderr = &se
		exit := 0
		hung := false
		if err := cmd.Start(); err != nil {
			panic(err)
		}
		done := make(chan error, 1)
		go func() { done <- cmd.Wait() }()
		select {
		case err := <-done:
			if err != nil {
				if ee, ok := err.(*exec.ExitError); ok {
					exit = ee.ExitCode()
				} else {
					exit = -1
				}
			}
		case <-time.After(60 * time.Second):
			cmd.Process.Kill()
			<-done
			hung = true
			exit = -9
		}
		events := parseIOLog(iolog)
		after := snapshotDir(root)
		inv := c18inv{Argv: argv, Valid: valid, Why: why, Exit: exit, Stdout: trunc(so.String(), 200), Stderr: trunc(se.String(), 200)}
		for _, e := range events {
			if isMutating(e) {
				inv.Mutating = append(inv.Mutating, e.Op+" "+strings.TrimPrefix(e.Path, root+"/"))
			}
		}
		d.Invs = append(d.Invs, inv)
		evh = mix(evh, uint64(exit), hashStr(strings.ReplaceAll(strings.ReplaceAll(so.String(), "/"+root, "$ROOT"), root, "$ROOT")))
		sig = append(sig, hashStr(strings.Join(argv, "\x00")))
		short := fmt.Sprintf("invocation %d: vore %s", k, trunc(strings.Join(argv, " "), 200))
		if hung {
			addV("liveness", "cli-hang", short+": did not exit within 60 s")
			break
		}

		if !valid {
			// exit non-zero, a message, world unchanged (snapshot and call log)
			if compileFails && invalidKind == 0 {
				ctx.Count("compile_error_invocation_checked", 1)
			} else {
				ctx.Count("invalid_invocation_checked", 1)
			}
			res.Nontrivial = true
			kind := strings.ReplaceAll(strings.SplitN(why, ":", 2)[len(strings.SplitN(why, ":", 2))-1], " ", "-")
			if exit == 0 {
				addV("exit-status", "invalid-exit-zero:"+kind, short+" ("+why+") exits 0")
			}
			if strings.TrimSpace(so.String()+se.String()) == "" {
				addV("message", "invalid-no-message:"+kind, short+" ("+why+") prints nothing")
			}
			for n := range after {
				if _, ok := before[n]; !ok {
					addV("world-unchanged", "invalid-created-file:"+kind, short+" ("+why+") created "+n)
				}
			}
			for n, b := range before {
				a, ok := after[n]
				if !ok || string(a) != string(b) {
					addV("world-unchanged", "invalid-modified-file:"+kind, short+" ("+why+") modified or removed "+n)
				}
			}
			for _, e := range events {
				if isMutating(e) {
					addV("world-unchanged", "invalid-mutating-call:"+kind+":"+e.Op, short+" ("+why+") issued file-system call "+e.Op+" on "+e.Path)
				}
			}
			if len(res.Violations) > 0 {
				break
			}
			continue
		}

		// ---- valid invocation ----
		if exit != 0 {
			first := strings.SplitN(strings.TrimSpace(se.String()), "\n", 2)[0]
			addV("exit-status", "valid-exit-nonzero:"+coarse(first), fmt.Sprintf("%s exits %d; stderr: %s", short, exit, trunc(se.String(), 400)))
			break
		}
		if len(expFiles) == 0 {
			ctx.Count("no_file_matches_pattern", 1)
		}
		if len(expFiles) > 1 {
			ctx.Count("glob_selected_several_files", 1)
		}
		cmpDoc := func(what string, raw []byte) {
			doc, err := oneJSONDoc(raw)
			if err != nil {
				addV("json-document", what+"-not-one-json-document", fmt.Sprintf("%s: %s is not exactly one JSON document (%v): %q", short, what, err, trunc(string(raw), 200)))
				return
			}
			got, err := groupByFile(doc)
			if err != nil {
				addV("json-document", what+"-shape", fmt.Sprintf("%s: %s: %v", short, what, err))
				return
			}
			n := 0
			for _, l := range got {
				n += len(l)
			}
			if n > 100000 {
				ctx.Count("huge_document_compared", 1)
			}
			if n != nExp {
				addV("json-document", what+"-match-count", fmt.Sprintf("%s: %s holds %d matches, the library finds %d in %v", short, what, n, nExp, expFiles))
				return
			}
			if !reflect.DeepEqual(got, expDoc) {
				gb, _ := json.Marshal(got)
				eb, _ := json.Marshal(expDoc)
				addV("json-document", what+"-differs-from-library", fmt.Sprintf("%s: %s differs from the library result as a document:\n got  %s\n want %s", short, what, trunc(string(gb), 400), trunc(string(eb), 400)))
				return
			}
			// order: the document must be the list RunFiles returns for SOME order of the
			// selected files (the sorted order first; the tool may legitimately use another)
			if len(expFiles) > 1 || len(prog.Cmds) > 1 {
				ctx.Count("document_order_compared", 1)
				if reflect.DeepEqual(doc, expList) {
					return
				}
				pre := filepath.Join(ctx.World, "p") // same length as root (".../w")
				os.RemoveAll(pre)
				for n, b := range before {
					os.MkdirAll(filepath.Dir(filepath.Join(pre, n)), 0755)
					os.WriteFile(filepath.Join(pre, n), b, 0644)
				}
				found := false
				var perm func(k int, l []string)
				tried := 0
				perm = func(k int, l []string) {
					if found || tried > 30 {
						return
					}
					if k == len(l) {
						tried++
						files := make([]string, len(l))
						for i, f := range l {
							files[i] = filepath.Join(pre, f)
						}
						simrt.Reset(1, nil, 1)
						simrt.Solo()
						simrt.OpStart(600000000)
						o, ms := doRunFiles(prog.whole, files, engine.NOTHING, "")
						simrt.OpEnd()
						simrt.Stop()
						if o.Class != "ok" {
							return
						}
						for i := range ms {
							ms[i].Filename = root + strings.TrimPrefix(ms[i].Filename, pre)
						}
						b, _ := json.Marshal([]engine.Match(ms))
						var want any
						json.Unmarshal(b, &want)
						groupByFile(want)
						if reflect.DeepEqual(doc, want) {
							found = true
						}
						return
					}
					for i := k; i < len(l); i++ {
						l[k], l[i] = l[i], l[k]
						perm(k+1, l)
						l[k], l[i] = l[i], l[k]
					}
				}
				perm(0, append([]string{}, expFiles...))
				if !found {
					gb, _ := json.Marshal(doc)
					eb, _ := json.Marshal(expList)
					addV("json-document", what+"-order-differs-from-library", fmt.Sprintf("%s: %s holds the library's matches, but not in the order RunFiles returns them for any order of the files %v:\n got  %s\n want (sorted file order) %s", short, what, expFiles, trunc(string(gb), 400), trunc(string(eb), 400)))
				}
			}
		}
		if nExp > 0 && !noOutput {
			res.Nontrivial = true
			if outKind == 1 {
				ctx.Count("json_stdout_compared", 1)
				cmpDoc("stdout(-json)", so.Bytes())
			} else if outKind == 2 {
				ctx.Count("formatted_json_stdout_compared", 1)
				cmpDoc("stdout(-formatted-json)", so.Bytes())
			}
			for _, jf := range []struct{ name, what, probe string }{{jsonFile, "json-file", "json_file_compared"}, {fjsonFile, "formatted-json-file", "formatted_json_file_compared"}} {
				if jf.name == "" {
					continue
				}
				writeSet[jf.name] = true
				raw, ok := after[jf.name]
				if !ok {
					addV("json-document", jf.what+"-missing", fmt.Sprintf("%s: the named %s was not written", short, jf.what))
					continue
				}
				if old, ok := before[jf.name]; ok && len(old) > len(raw) {
					ctx.Count("stale_json_file_longer_than_document", 1)
				}
				ctx.Count(jf.probe, 1)
				cmpDoc(jf.what, raw)
				expModel[jf.name] = raw // content judged as a document above
			}
		} else {
			// unconstrained by the documentation: accept whatever is in the named files
			for _, n := range []string{jsonFile, fjsonFile} {
				if n == "" {
					continue
				}
				writeSet[n] = true
				if a, ok := after[n]; ok {
					if noOutput && nExp > 0 {
						if _, err := oneJSONDoc(a); err != nil {
							if b, existed := before[n]; !existed || string(b) != string(a) {
								addV("json-document", "no-output-json-file-invalid", fmt.Sprintf("%s: with -no-output the named JSON file was written but is not a valid document", short))
							}
						}
					}
					expModel[n] = a
				} else {
					delete(expModel, n)
				}
			}
		}
		if isReplace && len(expFiles) > 0 {
			switch mode {
			case engine.NEW:
				ctx.Count("mode_default_new_replace", 1)
			case engine.OVERWRITE:
				ctx.Count("mode_overwrite_replace", 1)
			default:
				ctx.Count("mode_nothing_replace", 1)
			}
			if mode != engine.NOTHING {
				res.Nontrivial = true
				if wrote {
					ctx.Count("invocation_after_earlier_write", 1)
				}
				wrote = true
			}
		}
		// world == expected model
		var all []string
		seen := map[string]bool{}
		for n := range after {
			seen[n] = true
			all = append(all, n)
		}
		for n := range expModel {
			if !seen[n] {
				all = append(all, n)
			}
		}
		sort.Strings(all)
		for _, n := range all {
			a, okA := after[n]
			m, okM := expModel[n]
			evh = mix(evh, hashStr(n), hashStr(strings.ReplaceAll(strings.ReplaceAll(string(a), "/"+root, "$ROOT"), root, "$ROOT")))
			switch {
			case okA && !okM:
				addV("world-vs-model", "extra-file:"+mode.String(), fmt.Sprintf("%s: file %s exists afterwards but nothing allows it", short, n))
			case !okA && okM:
				addV("world-vs-model", "missing-file:"+mode.String(), fmt.Sprintf("%s: file %s should exist afterwards", short, n))
			case string(a) != string(m):
				kind := "searched-file"
				if strings.HasSuffix(n, ".vored") {
					kind = "vored-file"
				}
				addV("world-vs-model", "content-differs:"+kind+":"+mode.String(), fmt.Sprintf("%s: %s holds %q, expected %q (mode %s, replace=%v)", short, n, trunc(string(a), 100), trunc(string(m), 100), mode, isReplace))
			}
		}
		for _, e := range events {
			if !isMutating(e) {
				continue
			}
			for _, p := range []string{e.Path, e.Path2} {
				if p == "" {
					continue
				}
				rel := p
				if filepath.IsAbs(p) {
					rel = strings.TrimPrefix(filepath.Clean(p), root+"/")
				}
				if writeSet[rel] {
					continue
				}
				if _, existed := before[rel]; existed {
					addV("write-set", "write-outside-write-set:"+mode.String()+":"+e.Op, fmt.Sprintf("%s: file-system call %s on %s, which existed before and is not in the write-set %v", short, e.Op, rel, keysOf(writeSet)))
				}
			}
		}
		model = after
		if len(res.Violations) > 0 {
			break
		}
	}
	res.EventHash = evh
	res.Sig = mix(append(sig, hashStr(fmt.Sprint(d.World)))...)
	res.Desc = d
	return res
}
