package main

// C06 — Replace output is the exact splice; each mode touches only the file it
// may.
//
// One run = a scratch world of 1–4 files (some with a stale, longer
// `<file>.vored`, some listed twice) and a history of 1–6
// RunFiles(program, files, mode) ops on it. After every op the real world is
// compared byte for byte with an in-memory file-system model that is advanced
// with a reference splice of the code's own Run(string(content)) matches, the
// returned matches are compared with those, and the op's file-system call
// history is checked against the mode's write-set.

import (
	"fmt"
	"math/rand"
	"os"
	"path/filepath"
	"sort"
	"strings"

	"github.com/jmeaster30/vore/libvore"
	"github.com/jmeaster30/vore/libvore/engine"
	"verif/simrt"
)

type c06prog struct {
	Defs string
	Cmds []string
	Sep  string // between commands; "\n" when empty
	// compiled lazily
	whole *libvore.Vore
	parts []*libvore.Vore
	bad   bool
}

func (p *c06prog) source() string {
	sep := p.Sep
	if sep == "" {
		sep = "\n"
	}
	return p.Defs + strings.Join(p.Cmds, sep)
}

func (p *c06prog) isReplace(j int) bool {
	return strings.HasPrefix(strings.TrimSpace(p.Cmds[j]), "replace")
}

var c06progs = []*c06prog{
	{Cmds: []string{"replace all 'a' with 'xyz'"}},
	{Cmds: []string{"replace all 'ana' with '-'"}},
	{Cmds: []string{"replace all 'an' with ''"}},
	{Cmds: []string{"replace all (digit = d) '-' (digit = e) with e '-' d"}},
	{Defs: "set up to transform\n  return match + match\nend\n", Cmds: []string{"replace all at least 1 digit with up"}},
	{Cmds: []string{"replace all 'a' with 'b'", "replace all 'b' with 'cc'"}},
	{Cmds: []string{"find all 'a'", "replace all 'x' with matchNumber ':' startOffset"}},
	{Cmds: []string{"replace all 'zzz' with 'y'"}},
	{Cmds: []string{"find all letter"}},
	{Cmds: []string{"find all 'an'", "find all digit"}},
	{Cmds: []string{"replace top 2 'a' with 'AA'"}},
	{Cmds: []string{"replace skip 1 take 2 'an' with '<' value '>'"}},
	{Cmds: []string{"replace last 1 at least 1 letter with '[' value ']'"}},
	{Cmds: []string{"replace all at least 1 whitespace with ' '"}},
	{Cmds: []string{"replace all whole line with value value"}},
	{Cmds: []string{"replace all letter with ''"}},
	{Cmds: []string{"replace all any with 'q'"}},
	{Cmds: []string{"replace all caseless 'BAN' with 'Can'"}},
	{Cmds: []string{"replace all line start 'x' with 'line:x'"}},
	{Cmds: []string{"replace all at least 2 digit with 'N' 'N' 'N' 'N' 'N' 'N' 'N' 'N'"}},
	{Cmds: []string{"replace all word start at least 1 letter word end with 'w'"}},
	{Cmds: []string{"replace all 'a' file end with 'END'"}},
	{Defs: "set p to pattern 'a' or 'b'\n", Cmds: []string{"replace all p p with 'P'", "find all p"}},
	{Defs: "set num to pattern at least 1 digit begin return match % 2 == 0 end\n", Cmds: []string{"replace all num with 'even'"}},
	{Cmds: []string{"replace all @/(a)(n)/ with '2' '1'"}},
	{Cmds: []string{"replace all 'x' with 'x'"}},
	{Cmds: []string{"replace all 'na' with 'nana'", "replace all 'nana' with 'na'", "replace all 'b' with ''"}},
}

type c06 struct {
	env *Env
}

func init() { register(&c06{}) }

func (c *c06) ID() string { return "C06" }

func (c *c06) Phases(tier string) []PhaseSpec {
	if tier == "thorough" {
		return []PhaseSpec{{Name: "world", Runs: 100000, Note: "RunFiles histories on scratch worlds vs FS model + syscall write-set rule"}}
	}
	return []PhaseSpec{{Name: "world", Runs: 5000, Note: "RunFiles histories on scratch worlds vs FS model + syscall write-set rule"}}
}

func (c *c06) Rule() string {
	return "one run = a scratch world of 1-4 files over a small alphabet (sizes mostly < 200 bytes, some 4095-4097 and 8193; stale longer .vored files; a file listed twice) and a history of 1-6 RunFiles(program, files, mode in {NOTHING, NEW, OVERWRITE}) ops with find/replace programs (replacement longer, shorter, empty, captures, transforms, several commands, zero matches, generated literal pairs); after each op: world == in-memory model (reference splice of the code's own Run on the model content), returned matches == expected per file, and every mutating file-system call of the op's history lies in the mode's write-set; non-trivial = at least one replace command with at least one match executed in NEW or OVERWRITE mode; distinct = distinct (world, history) hashes among those"
}

func (c *c06) Assumptions() []string {
	return []string{
		"matches used for the reference splice come from the code's own Run on the same bytes (sound by C07 and C13's concatenation clause, which are checked separately)",
		"writes through files.Writer are observed at open time (path + flags), plus rename/remove/truncate; content effects are judged on the world snapshot after each op",
		"the order of the returned list across files is not asserted, only per file",
	}
}

func (c *c06) ProbeNames() []string {
	return []string{"overwrite_with_longer_output", "overwrite_with_shorter_output", "new_with_stale_vored_longer_than_output", "replace_with_zero_matches_written", "file_listed_twice", "empty_file_replaced", "two_replace_commands_one_source", "file_larger_than_window_replaced", "op_after_earlier_write_op", "nothing_mode_replace", "find_only_program_in_write_mode", "vored_file_searched", "file_64k_or_more", "unmatched_stretch_over_64k"}
}

func (c *c06) SweepPrefix(string, uint64) []uint64 { return nil }
func (c *c06) SweepCount(string) uint64            { return 0 }

func (c *c06) Init(env *Env) error {
	c.env = env
	return nil
}

func (p *c06prog) compile() {
	if p.whole != nil || p.bad {
		return
	}
	v, oc := doCompile(p.source())
	if v == nil || oc.Class != "ok" {
		p.bad = true
		return
	}
	p.whole = v
	for j := range p.Cmds {
		pv, oc := doCompile(p.Defs + p.Cmds[j])
		if pv == nil || oc.Class != "ok" {
			p.bad = true
			return
		}
		p.parts = append(p.parts, pv)
	}
}

var c06words = []string{"banana", "ananas", "12-34", "x.x", "a1b22", "an", "a", "b", "xa", "Ban", "zzz", "nana", " ", "\n", "\t", "7", "x", "\r\n", "aaa", "ab", "50%", "%d an", "\"q\"", "a\\b", "é", "%s", "an\r\nb", "an\nb"}

func c06content(t *Tape, size int) []byte {
	var b []byte
	for len(b) < size {
		b = append(b, c06words[t.Draw(len(c06words))]...)
		if t.Draw(3) == 0 {
			b = append(b, ' ')
		}
	}
	return b[:size]
}

func c06bigContent(size int, salt uint64) []byte {
	var b []byte
	i := uint64(0)
	for len(b) < size {
		b = append(b, c06words[mix(i, salt)%uint64(len(c06words))]...)
		b = append(b, ' ')
		i++
	}
	return b[:size]
}

type c06opDesc struct {
	Program string   `json:"program"`
	Files   []string `json:"files"`
	Mode    string   `json:"mode"`
	Outcome string   `json:"outcome,omitempty"`
	IO      []string `json:"mutating_fs_calls,omitempty"`
}

type c06desc struct {
	World map[string]string `json:"world_before"`
	Ops   []c06opDesc       `json:"history"`
}

func snapshotDir(root string) map[string][]byte {
	out := map[string][]byte{}
	filepath.Walk(root, func(p string, info os.FileInfo, err error) error {
		if err != nil || info.IsDir() {
			return nil
		}
		b, _ := os.ReadFile(p)
		rel, _ := filepath.Rel(root, p)
		out[rel] = b
		return nil
	})
	return out
}

func splice(content []byte, ms engine.Matches) []byte {
	var out []byte
	last := 0
	for _, m := range ms {
		if m.Offset.Start < last || m.Offset.End > len(content) {
			continue
		}
		out = append(out, content[last:m.Offset.Start]...)
		out = append(out, m.Replacement.GetValueOrDefault("")...)
		last = m.Offset.End
	}
	return append(out, content[last:]...)
}

func isMutating(e simrt.IOEvent) bool {
	switch e.Op {
	case "open":
		return e.Flags&(os.O_WRONLY|os.O_RDWR|os.O_CREATE|os.O_TRUNC|os.O_APPEND) != 0
	case "writefile", "rename", "remove", "truncate", "ftruncate", "write", "mkdir":
		return true
	}
	return false
}

func (c *c06) Run(ctx *RunCtx) *RunResult {
	t := ctx.T
	res := &RunResult{}
	addV := func(oracle, key, detail string) {
		if !hasKey(res.Violations, key) {
			res.Violations = append(res.Violations, Violation{oracle, key, detail})
		}
	}
	root := filepath.Join(ctx.World, "w")
	os.RemoveAll(root)
	os.MkdirAll(root, 0755)
	// ---- world ----
	nfiles := t.Range(1, 4)
	model := map[string][]byte{}
	var names []string
	for i := 0; i < nfiles; i++ {
		name := []string{"a.txt", "b.txt", "c.dat", "d"}[i]
		var content []byte
		switch t.Draw(12) {
		case 0:
			content = nil // empty
		case 1:
			sizes := []int{4095, 4096, 4097, 8193}
			if t.Draw(40) == 1 {
				sizes = []int{65600, 66000, 70001} // thousands of matches, far above the window
				ctx.Count("file_64k_or_more", 1)
			}
			content = c06bigContent(sizes[t.Draw(len(sizes))], uint64(t.Draw(1000)))
			if len(content) > 60000 && t.Draw(2) == 1 {
				// one stretch of more than 64 KiB in which nothing can match, then ordinary text
				gap := 65537 + t.Range(0, 3)
				for i := 0; i < gap && i < len(content)-40; i++ {
					content[i] = 'Q'
				}
				ctx.Count("unmatched_stretch_over_64k", 1)
			}
		default:
			content = c06content(t, t.Range(1, 160))
		}
		model[name] = content
		names = append(names, name)
		if t.Draw(4) == 0 {
			// stale .vored, longer than any plausible output
			model[name+".vored"] = []byte(strings.Repeat("STALE-", len(content)/2+20))
			if t.Draw(3) == 0 {
				// an earlier run's output may itself be searched later (a glob or directory picks it up)
				names = append(names, name+".vored")
				ctx.Count("vored_file_searched", 1)
			}
		}
	}
	for n, b := range model {
		if err := os.WriteFile(filepath.Join(root, n), b, 0644); err != nil {
			panic(err)
		}
	}
	d := &c06desc{World: map[string]string{}}
	for n, b := range model {
		d.World[n] = trunc(string(b), 120)
	}
	// ---- history ----
	nops := t.Range(1, 6)
	simrt.Reset(1, soloPlan(t, treeSpawnsCached(c.env), 20000), uint64(t.Draw(1<<20)))
	simrt.Solo()
	rand.Seed(int64(t.Draw(1 << 20)))
	evh := uint64(3)
	var sig []uint64
	wroteBefore := false
	for k := 0; k < nops; k++ {
		var prog *c06prog
		if t.Draw(5) == 0 {
			// generated literal pair
			a := c06words[t.Draw(12)]
			b := c06words[t.Draw(len(c06words))]
			if t.Draw(4) == 0 {
				b = ""
			}
			q := func(s string) string {
				s = strings.ReplaceAll(s, "\n", "\\n")
				s = strings.ReplaceAll(s, "\t", "\\t")
				s = strings.ReplaceAll(s, "\r", "\\r")
				return "'" + s + "'"
			}
			prog = &c06prog{Cmds: []string{"replace all " + q(a) + " with " + q(b)}}
			if b == "" {
				prog.Cmds[0] = "replace all " + q(a) + " with ''"
			}
		} else {
			prog = c06progs[t.Draw(len(c06progs))]
		}
		prog.compile()
		mode := []engine.ReplaceMode{engine.NEW, engine.OVERWRITE, engine.NOTHING}[t.Draw(3)]
		nf := t.Range(1, len(names))
		var files []string
		perm := append([]string(nil), names...)
		for i := 0; i < nf; i++ {
			j := i + t.Draw(len(perm)-i)
			perm[i], perm[j] = perm[j], perm[i]
			files = append(files, perm[i])
		}
		if t.Draw(6) == 0 {
			files = append(files, files[0])
			ctx.Count("file_listed_twice", 1)
		}
		od := c06opDesc{Program: prog.source(), Files: files, Mode: mode.String()}
		if prog.bad {
			od.Outcome = "program does not compile (skipped)"
			d.Ops = append(d.Ops, od)
			continue
		}
		// ---- model step ----
		writeSet := map[string]bool{}
		expected := map[string]string{} // per file: digest sequence
		nReplaceCmds := 0
		for j := range prog.Cmds {
			if prog.isReplace(j) {
				nReplaceCmds++
			}
		}
		if nReplaceCmds >= 2 {
			ctx.Count("two_replace_commands_one_source", 1)
		}
		if nReplaceCmds == 0 && mode != engine.NOTHING {
			ctx.Count("find_only_program_in_write_mode", 1)
		}
		aborted := false
		matched := false
		for j := range prog.Cmds {
			for _, f := range files {
				content := model[f]
				simrt.OpStart(3000000 + 400*uint64(len(content)))
				var ms engine.Matches
				func() {
					defer func() {
						if r := recover(); r != nil {
							aborted = true
						}
					}()
					ms = prog.parts[j].Run(string(content))
				}()
				simrt.OpEnd()
				if aborted {
					break
				}
				for i := range ms {
					ms[i].Filename = f
				}
				expected[f] += matchesDigest(ms, true, "")
				if !prog.isReplace(j) {
					continue
				}
				T := splice(content, ms)
				switch mode {
				case engine.NEW:
					writeSet[f+".vored"] = true
					if old, ok := model[f+".vored"]; ok && len(old) > len(T) {
						ctx.Count("new_with_stale_vored_longer_than_output", 1)
					}
					model[f+".vored"] = T
				case engine.OVERWRITE:
					writeSet[f] = true
					if len(T) > len(content) {
						ctx.Count("overwrite_with_longer_output", 1)
					} else if len(T) < len(content) {
						ctx.Count("overwrite_with_shorter_output", 1)
					}
					model[f] = T
				default:
					ctx.Count("nothing_mode_replace", 1)
				}
				if mode != engine.NOTHING {
					if len(ms) == 0 {
						ctx.Count("replace_with_zero_matches_written", 1)
					} else {
						matched = true
					}
					if len(content) == 0 {
						ctx.Count("empty_file_replaced", 1)
					}
					if len(content) > 4096 {
						ctx.Count("file_larger_than_window_replaced", 1)
					}
				}
			}
		}
		if aborted {
			ctx.Count("discarded_budget", 1)
			od.Outcome = "reference run exceeded its budget (run discarded)"
			d.Ops = append(d.Ops, od)
			res.Nontrivial = false
			break
		}
		if matched {
			res.Nontrivial = true
			if wroteBefore {
				ctx.Count("op_after_earlier_write_op", 1)
			}
			wroteBefore = true
		}
		// ---- real step ----
		before := snapshotDir(root)
		abs := make([]string, len(files))
		for i, f := range files {
			abs[i] = filepath.Join(root, f)
		}
		simrt.ClearIO()
		simrt.OpStart(200000000)
		out, ms := doRunFiles(prog.whole, abs, mode, root+"/")
		simrt.OpEnd()
		events := simrt.IOEvents()
		od.Outcome = trunc(out.String(), 160)
		evh = mix(evh, hashStr(out.String()))
		sig = append(sig, mix(hashStr(prog.source()), uint64(mode), hashStr(strings.Join(files, ","))))
		if out.Class != "ok" {
			addV("no-panic", "runfiles-"+out.Class+":"+coarse(out.Detail), fmt.Sprintf("op %d RunFiles(%q, %v, %s) did not return normally: %s", k, trunc(prog.source(), 100), files, mode, out.Detail))
			d.Ops = append(d.Ops, od)
			break
		}
		// returned matches, per file
		got := map[string]string{}
		for _, m := range ms {
			rel := strings.TrimPrefix(m.Filename, root+"/")
			mm := m
			mm.Filename = rel
			got[rel] += matchesDigest(engine.Matches{mm}, true, "")
		}
		for _, f := range files {
			if got[f] != expected[f] {
				addV("returned-matches", "returned-matches-differ", fmt.Sprintf("op %d RunFiles(%q, %v, %s): matches returned for %s are %q, Run on the same bytes gives %q", k, trunc(prog.source(), 100), files, mode, f, trunc(got[f], 200), trunc(expected[f], 200)))
			}
		}
		// world == model
		after := snapshotDir(root)
		var all []string
		seen := map[string]bool{}
		for n := range after {
			if !seen[n] {
				seen[n] = true
				all = append(all, n)
			}
		}
		for n := range model {
			if !seen[n] {
				seen[n] = true
				all = append(all, n)
			}
		}
		sort.Strings(all)
		for _, n := range all {
			a, okA := after[n]
			m, okM := model[n]
			evh = mix(evh, hashStr(n), hashStr(string(a)))
			switch {
			case okA && !okM:
				addV("world-vs-model", "extra-file", fmt.Sprintf("op %d (%s, %q): file %s exists after the op but the mode allows no such file", k, mode, trunc(prog.source(), 80), n))
			case !okA && okM:
				addV("world-vs-model", "missing-file", fmt.Sprintf("op %d (%s, %q): file %s should exist after the op", k, mode, trunc(prog.source(), 80), n))
			case string(a) != string(m):
				kind := "searched-file"
				if strings.HasSuffix(n, ".vored") {
					kind = "vored-file"
				}
				_, existed := before[n]
				i := 0
				for i < len(a) && i < len(m) && a[i] == m[i] {
					i++
				}
				lo := i - 20
				if lo < 0 {
					lo = 0
				}
				addV("world-vs-model", "content-differs:"+kind+":"+mode.String(), fmt.Sprintf("op %d RunFiles(%q, %v, %s): %s (existed before: %v) holds %d bytes, the exact splice has %d; first difference at byte %d: got …%q want …%q", k, trunc(prog.source(), 100), files, mode, n, existed, len(a), len(m), i, trunc(string(a[lo:]), 60), trunc(string(m[lo:]), 60)))
			}
		}
		// write-set rule on the call history
		for _, e := range events {
			if !isMutating(e) {
				continue
			}
			for _, p := range []string{e.Path, e.Path2} {
				if p == "" {
					continue
				}
				rel := strings.TrimPrefix(p, root+"/")
				od.IO = append(od.IO, e.Op+" "+rel)
				if writeSet[rel] {
					continue
				}
				if _, existed := before[rel]; existed {
					kind := "searched-file"
					if strings.HasSuffix(rel, ".vored") {
						kind = "vored-file"
					}
					addV("write-set", "write-outside-mode:"+mode.String()+":"+e.Op+":"+kind, fmt.Sprintf("op %d RunFiles(%q, %v, %s): file-system call %s on %s, which existed before the op and is not in the mode's write-set %v", k, trunc(prog.source(), 100), files, mode, e.Op, rel, keysOf(writeSet)))
				}
			}
		}
		d.Ops = append(d.Ops, od)
		if len(res.Violations) > 0 {
			break // the model and the world have diverged
		}
	}
	res.Steps = simrt.Steps
	simrt.Stop()
	res.EventHash = evh
	res.Sig = mix(append(sig, hashStr(fmt.Sprint(d.World)))...)
	res.Desc = d
	return res
}

func keysOf(m map[string]bool) []string {
	var ks []string
	for k := range m {
		ks = append(ks, k)
	}
	sort.Strings(ks)
	return ks
}
