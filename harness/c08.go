package main

// C08 — Compile is total: any source text yields a program or an error value.
//
// Compile is ast.ParseReader over an io.Reader and CompileFile over a file:
// the source is a byte stream. A valid base program from the corpus is
// delivered through a simulated transport under a fault plan drawn from the
// tape: read chunk sizes, EOF at byte k (the crash point), loss, duplication
// and swap of segments, byte corruption, read error at k. Delivery paths:
// "reader" (simulated io.Reader -> ast.ParseReader -> GenerateBytecode, the
// body of libvore.compile), "string" (libvore.Compile) and "file"
// (libvore.CompileFile on a real file holding the delivered bytes).
// Oracle: the call returns within its step budget and <= 64 reads after EOF;
// exactly one of (program, error) is non-nil; the error prints; no panic; no
// holes in the returned program.

import (
	"errors"
	"fmt"
	"io"
	"math/rand"
	"os"
	"path/filepath"
	"reflect"
	"sort"
	"strings"

	"github.com/jmeaster30/vore/libvore"
	"github.com/jmeaster30/vore/libvore/ast"
	"github.com/jmeaster30/vore/libvore/bytecode"
	"verif/simrt"
)

type c08 struct {
	env      *Env
	pool     []Item
	steps    []uint64
	offsets  []uint64 // cumulative source lengths for the EOF sweep
	allowed  map[string]bool
	maxDigit []int
	initV    []Violation
	// seen: outcome of every delivered source so far in this process. Compile is a
	// function of the bytes: a source rejected once and accepted later (or the
	// reverse) means a failed parse left something behind.
	seen map[uint64]string
}

func init() { register(&c08{}) }

func (c *c08) ID() string { return "C08" }

func (c *c08) Phases(tier string) []PhaseSpec {
	if tier == "thorough" {
		return []PhaseSpec{
			{Name: "eofsweep", Runs: 0, Sweep: true, Note: "EOF at every byte position of every corpus program"},
			{Name: "faults", Runs: 40000000, Note: "seeded fault plans on the source stream"},
		}
	}
	return []PhaseSpec{{Name: "faults", Runs: 200000, Note: "seeded fault plans on the source stream"}}
}

func (c *c08) Rule() string {
	return "one run = one valid corpus program delivered to the compiler through a faulted byte stream: 1-3 faults from {EOF at byte k, segment loss, segment duplication, swap of adjacent segments (token-ish or arbitrary boundaries), byte corruption (bit flip or a byte from NUL ' \" \\ @ / - ( ) { } or random), read error at k}, read chunk sizes 1..64 or whole, via a simulated io.Reader, Compile(string) or CompileFile(real file); digit runs are never lengthened; non-trivial = at least one fault changed the delivered bytes or ended the stream early; distinct = distinct (path, delivered bytes, error position) hashes among those"
}

func (c *c08) Assumptions() []string {
	return []string{
		"the base is always a valid corpus program; grammar-generated programs, token soups and random byte strings as inputs are not claimed (input generation, not simulation)",
		"the reader path replicates the four lines of libvore.compile (ParseReader, GenerateBytecode); the string and file paths call the real entry points",
		"step budget = min(200 x the fault-free compile of the base, 2500 per delivered source byte) + 100000 logical steps (the corpus needs <= 24 per byte); heap budget 1 GiB; both far above any legitimate compile of a corpus-sized source",
		"hole = nil pointer or nil interface reachable from the returned program, except (type, field) places that are nil in some fault-free corpus compile",
	}
}

func (c *c08) ProbeNames() []string {
	return []string{"eof_inside_string_literal", "eof_inside_regex_literal", "eof_inside_block_comment", "eof_inside_transform_body", "accepted_after_fault", "rejected_after_fault", "read_error_injected", "reader_polled_after_eof", "path_reader", "path_string", "path_file", "holes_checked_programs", "same_source_delivered_again"}
}

func (c *c08) SweepPrefix(phase string, i uint64) []uint64 {
	// eofsweep: item, path (i%3), one fault of kind EOF at position k
	if len(c.offsets) == 0 || i >= c.offsets[len(c.offsets)-1] {
		return nil
	}
	it := sort.Search(len(c.offsets), func(j int) bool { return c.offsets[j] > i })
	k := i
	if it > 0 {
		k = i - c.offsets[it-1]
	}
	// draw order in Run: item, path, chunkmode, nfaults-1, (kind, pos, ...)
	return []uint64{uint64(it), i % 3, i % 5, 0, 0, k}
}

func (c *c08) SweepCount(string) uint64 {
	if len(c.offsets) == 0 {
		return 0
	}
	return c.offsets[len(c.offsets)-1]
}

func maxDigitRun(s string) int {
	m, cur := 0, 0
	for i := 0; i < len(s); i++ {
		if s[i] >= '0' && s[i] <= '9' {
			cur++
			if cur > m {
				m = cur
			}
		} else {
			cur = 0
		}
	}
	return m
}

func (c *c08) Init(env *Env) error {
	c.env = env
	corp, err := loadCorpus(env.VerifDir)
	if err != nil {
		return err
	}
	c.allowed = map[string]bool{}
	c.seen = map[uint64]string{}
	var total uint64
	for _, it := range corp.Items {
		simrt.Reset(1, nil, 3)
		simrt.Solo()
		rand.Seed(1)
		simrt.OpStart(5000000)
		v, oc := doCompile(it.Src)
		simrt.OpEnd()
		st := simrt.Steps
		simrt.Stop()
		if oc.Class == "abort" || oc.Class == "panic" {
			// a corpus program that compiles on a healthy tree in < 25000 steps
			c.initV = append(c.initV, Violation{"bounded", "compile-" + oc.Class + ":base:" + panicKey(oc.Detail), fmt.Sprintf("the unfaulted corpus program %q (%q) does not compile within 5000000 steps: %s", it.Name, trunc(it.Src, 160), oc.String())})
			continue
		}
		if v == nil || oc.Class != "ok" {
			continue // the base must be a valid program
		}
		for _, h := range findHoles(v) {
			c.allowed[h] = true
		}
		if os.Getenv("VORESIM_DEBUG") != "" {
			fmt.Fprintf(os.Stderr, "C08 base %-40s len=%d steps=%d steps/byte=%.1f\n", trunc(it.Name, 40), len(it.Src), st, float64(st)/float64(len(it.Src)+16))
		}
		c.pool = append(c.pool, it)
		c.steps = append(c.steps, st)
		c.maxDigit = append(c.maxDigit, maxDigitRun(it.Src))
		total += uint64(len(it.Src)) + 1
		c.offsets = append(c.offsets, total)
	}
	if len(c.pool) < 40 {
		return fmt.Errorf("C08: too few valid base programs: %d", len(c.pool))
	}
	return nil
}

// ---- holes ----

func findHoles(roots ...any) []string {
	seen := map[uintptr]bool{}
	out := map[string]bool{}
	var walk func(rv reflect.Value, path string, depth int)
	walk = func(rv reflect.Value, path string, depth int) {
		if depth > 60 {
			return
		}
		switch rv.Kind() {
		case reflect.Ptr:
			if rv.IsNil() {
				out[path] = true
				return
			}
			p := rv.Pointer()
			if seen[p] {
				return
			}
			seen[p] = true
			walk(rv.Elem(), path, depth+1)
		case reflect.Interface:
			if rv.IsNil() {
				out[path] = true
				return
			}
			walk(rv.Elem(), path, depth+1)
		case reflect.Struct:
			tn := rv.Type().String()
			for i := 0; i < rv.NumField(); i++ {
				walk(rv.Field(i), tn+"."+rv.Type().Field(i).Name, depth+1)
			}
		case reflect.Slice, reflect.Array:
			for i := 0; i < rv.Len(); i++ {
				walk(rv.Index(i), path+"[]", depth+1)
			}
		case reflect.Map:
			it := rv.MapRange()
			for it.Next() {
				walk(it.Value(), path+"{}", depth+1)
			}
		}
	}
	for _, r := range roots {
		walk(reflect.ValueOf(r), "root", 0)
	}
	var l []string
	for k := range out {
		l = append(l, k)
	}
	sort.Strings(l)
	return l
}

// ---- simulated reader ----

var errDisk = errors.New("simulated read error")

type simReader struct {
	data     []byte
	pos      int
	chunk    []int
	ci       int
	errAt    int
	eofReads int
	errFired bool
}

func (r *simReader) Read(p []byte) (int, error) {
	if r.errAt >= 0 && r.pos >= r.errAt {
		r.eofReads++
		r.errFired = true
		if r.eofReads > 64 {
			panic(simrt.Abort{Kind: "poll"})
		}
		return 0, errDisk
	}
	if r.pos >= len(r.data) {
		r.eofReads++
		if r.eofReads > 64 {
			panic(simrt.Abort{Kind: "poll"})
		}
		return 0, io.EOF
	}
	n := len(p)
	if len(r.chunk) > 0 {
		ch := r.chunk[r.ci%len(r.chunk)]
		r.ci++
		if ch < n {
			n = ch
		}
	}
	if r.pos+n > len(r.data) {
		n = len(r.data) - r.pos
	}
	if r.errAt >= 0 && r.pos+n > r.errAt {
		n = r.errAt - r.pos
	}
	if n == 0 {
		n = 1
		if r.pos+n > len(r.data) {
			return 0, io.EOF
		}
	}
	copy(p, r.data[r.pos:r.pos+n])
	r.pos += n
	return n, nil
}

// ---- segmentation ----

func tokenBoundaries(s string) []int {
	b := []int{0}
	for i := 1; i < len(s); i++ {
		sp0 := s[i-1] == ' ' || s[i-1] == '\n' || s[i-1] == '\t'
		sp1 := s[i] == ' ' || s[i] == '\n' || s[i] == '\t'
		if sp0 != sp1 {
			b = append(b, i)
		}
	}
	return append(b, len(s))
}

// non-ASCII runes a damaged stream may carry: digits and letters of other scripts,
// separators, a byte order mark, an unfinished sequence
var oddRunes = []string{"\u0663", "\uff13", "\u0969", "\u00e9", "\u03a9", "\u2028", "\u00a0", "\ufeff", "\U0001F600", "\xd9", "\u0661\u0662", "\u2160"}

var specials = []byte{0, '\'', '"', '\\', '@', '/', '-', '(', ')', '{', '}'}

type c08fault struct {
	Kind string `json:"kind"`
	At   int    `json:"at"`
	Len  int    `json:"len,omitempty"`
	Byte int    `json:"byte,omitempty"`
}

type c08desc struct {
	Base      string     `json:"base_program"`
	Path      string     `json:"delivery_path"`
	Chunks    []int      `json:"read_chunk_sizes,omitempty"`
	Faults    []c08fault `json:"fault_plan"`
	Delivered string     `json:"delivered_source"`
	ErrAt     int        `json:"read_error_at"`
	Outcome   string     `json:"outcome"`
}

func lexState(src string) string {
	// where does the stream end? a light scan sufficient for the reach probes
	inS, inD, inRx, inBlock := false, false, false, false
	for i := 0; i < len(src); i++ {
		ch := src[i]
		switch {
		case inS:
			if ch == '\\' {
				i++
			} else if ch == '\'' {
				inS = false
			}
		case inD:
			if ch == '\\' {
				i++
			} else if ch == '"' {
				inD = false
			}
		case inRx:
			if ch == '\\' {
				i++
			} else if ch == '/' {
				inRx = false
			}
		case inBlock:
			if ch == ')' && strings.HasPrefix(src[i:], ")--") {
				inBlock = false
				i += 2
			}
		default:
			if ch == '\'' {
				inS = true
			} else if ch == '"' {
				inD = true
			} else if ch == '@' && i+1 < len(src) && src[i+1] == '/' {
				inRx = true
				i++
			} else if strings.HasPrefix(src[i:], "--(") {
				inBlock = true
				i += 2
			}
		}
	}
	switch {
	case inS || inD:
		return "string"
	case inRx:
		return "regex"
	case inBlock:
		return "blockcomment"
	}
	return ""
}

func (c *c08) Run(ctx *RunCtx) *RunResult {
	t := ctx.T
	res := &RunResult{}
	addV := func(oracle, key, detail string) {
		if !hasKey(res.Violations, key) {
			res.Violations = append(res.Violations, Violation{oracle, key, detail})
		}
	}
	for _, v := range c.initV {
		addV(v.Oracle, v.Key, v.Detail)
	}
	pi := t.Draw(len(c.pool))
	it := c.pool[pi]
	path := []string{"reader", "string", "file"}[t.Draw(3)]
	chunkMode := t.Draw(5)
	var chunks []int
	switch chunkMode {
	case 1:
		chunks = []int{1}
	case 2:
		chunks = []int{t.Range(2, 7)}
	case 3:
		for i := 0; i < 4; i++ {
			chunks = append(chunks, t.Range(1, 64))
		}
	case 4:
		chunks = []int{4096}
	}
	src := []byte(it.Src)
	nf := t.Range(1, 3)
	var plan []c08fault
	errAt := -1
	changed := false
	for f := 0; f < nf; f++ {
		kind := t.Draw(7)
		n := len(src)
		switch kind {
		case 0: // EOF at k
			k := t.Draw(n + 1)
			if k < n {
				changed = true
			}
			src = src[:k]
			plan = append(plan, c08fault{Kind: "eof", At: k})
			ctx.Count("fault_eof", 1)
		case 1, 2, 3: // loss / duplication / swap of segments
			if n < 2 {
				continue
			}
			var a, b, e int
			if t.Draw(2) == 0 {
				bd := tokenBoundaries(string(src))
				i := t.Draw(len(bd) - 1)
				a, b = bd[i], bd[i+1]
				e = b
				if i+2 < len(bd) {
					e = bd[i+2]
				}
			} else {
				a = t.Draw(n)
				b = a + t.Range(1, 12)
				if b > n {
					b = n
				}
				e = b + t.Range(1, 12)
				if e > n {
					e = n
				}
			}
			switch kind {
			case 1:
				src = append(append([]byte{}, src[:a]...), src[b:]...)
				plan = append(plan, c08fault{Kind: "loss", At: a, Len: b - a})
				ctx.Count("fault_loss", 1)
			case 2:
				dup := append([]byte{}, src[a:b]...)
				src = append(append(append([]byte{}, src[:b]...), dup...), src[b:]...)
				plan = append(plan, c08fault{Kind: "duplication", At: a, Len: b - a})
				ctx.Count("fault_duplication", 1)
			default:
				if e == b {
					continue
				}
				sw := append(append(append(append([]byte{}, src[:a]...), src[b:e]...), src[a:b]...), src[e:]...)
				src = sw
				plan = append(plan, c08fault{Kind: "swap", At: a, Len: e - a})
				ctx.Count("fault_swap", 1)
			}
			changed = true
		case 4, 5: // corruption
			if n == 0 {
				continue
			}
			k := t.Draw(n)
			var nb byte
			mode := t.Draw(4)
			if mode == 3 {
				// a byte replaced by a multi-byte sequence: a non-ASCII rune
				r := oddRunes[t.Draw(len(oddRunes))]
				src = append(append(append([]byte{}, src[:k]...), []byte(r)...), src[k+1:]...)
				plan = append(plan, c08fault{Kind: "corruption-rune", At: k, Len: len(r)})
				ctx.Count("fault_corruption_rune", 1)
				changed = true
				continue
			}
			switch mode {
			case 0:
				nb = src[k] ^ (1 << uint(t.Draw(8)))
			case 1:
				nb = specials[t.Draw(len(specials))]
			default:
				nb = byte(t.Draw(256))
			}
			if nb != src[k] {
				changed = true
			}
			src = append([]byte{}, src...)
			src[k] = nb
			plan = append(plan, c08fault{Kind: "corruption", At: k, Byte: int(nb)})
			ctx.Count("fault_corruption", 1)
		default: // read error at k (reader path only; elsewhere it is an EOF)
			k := t.Draw(n + 1)
			if path == "reader" {
				errAt = k
				plan = append(plan, c08fault{Kind: "read-error", At: k})
				ctx.Count("fault_read_error", 1)
			} else {
				src = src[:k]
				plan = append(plan, c08fault{Kind: "eof", At: k})
				ctx.Count("fault_eof", 1)
			}
			if k < n {
				changed = true
			}
		}
	}
	delivered := string(src)
	d := &c08desc{Base: trunc(it.Src, 300), Path: path, Chunks: chunks, Faults: plan, Delivered: trunc(delivered, 400), ErrAt: errAt}
	res.Desc = d
	// digit runs are never lengthened (loop counts are unrolled at compile time)
	if maxDigitRun(delivered) > c.maxDigit[pi] && maxDigitRun(delivered) > 2 {
		ctx.Count("discarded_digit_run_lengthened", 1)
		d.Outcome = "discarded: a digit run got longer"
		res.EventHash = 1
		return res
	}
	effective := delivered
	if errAt >= 0 && errAt < len(effective) {
		effective = effective[:errAt]
	}
	switch lexState(effective) {
	case "string":
		ctx.Count("eof_inside_string_literal", 1)
	case "regex":
		ctx.Count("eof_inside_regex_literal", 1)
	case "blockcomment":
		ctx.Count("eof_inside_block_comment", 1)
	}
	if strings.Contains(effective, "transform") && !strings.Contains(effective[strings.Index(effective, "transform"):], "end") {
		ctx.Count("eof_inside_transform_body", 1)
	}
	ctx.Count("path_"+path, 1)

	budget := 200*c.steps[pi] + 100000
	// absolute bound: the corpus compiles in <= 24 logical steps per source
	// byte on a healthy tree; 2500 per delivered byte is two orders above it
	if abs := uint64(2500*(len(delivered)+16) + 100000); abs < budget {
		budget = abs
	}
	simrt.Reset(1, soloPlan(t, treeSpawnsCached(c.env), 3000), uint64(t.Draw(1<<16))+1)
	simrt.Solo()
	simrt.SetHeapLimit(1 << 30)
	rand.Seed(int64(t.Draw(1 << 16)))
	var roots []any
	var out Outcome
	var rd *simReader
	simrt.OpStart(budget)
	switch path {
	case "reader":
		rd = &simReader{data: src, chunk: chunks, errAt: errAt}
		roots, out = compileFromReader(rd)
	case "string":
		var v *libvore.Vore
		v, out = doCompile(delivered)
		roots = []any{v}
	default:
		fn := filepath.Join(ctx.World, "src.vore")
		if err := os.WriteFile(fn, src, 0644); err != nil {
			panic(err)
		}
		var v *libvore.Vore
		v, out = doCompileFile(fn)
		roots = []any{v}
	}
	simrt.OpEnd()
	res.Steps = simrt.Steps
	simrt.Stop()
	if rd != nil {
		if rd.eofReads > 1 {
			ctx.Count("reader_polled_after_eof", 1)
		}
		if rd.errFired {
			ctx.Count("read_error_injected", 1)
		}
	}
	d.Outcome = trunc(out.String(), 300)
	res.Nontrivial = changed
	res.EventHash = mix(hashStr(path), hashStr(delivered), uint64(errAt+1), hashStr(out.Class+out.Detail))
	res.Sig = mix(hashStr(path), hashStr(delivered), uint64(errAt+1))
	where := fmt.Sprintf("base %q, faults %v, path %s: delivered source %q", trunc(it.Name, 40), plan, path, trunc(delivered, 300))
	if out.Class == "ok" || out.Class == "error" {
		hk := mix(hashStr(delivered), uint64(errAt+1))
		cls := out.Class
		if prev, ok := c.seen[hk]; ok {
			ctx.Count("same_source_delivered_again", 1)
			if prev != cls {
				addV("function-of-the-bytes", "compile-outcome-depends-on-history:"+prev+"->"+cls, where+fmt.Sprintf(" => %s now, but the same bytes gave %q earlier in this process: %s", cls, prev, trunc(out.String(), 200)))
			}
		} else if len(c.seen) < 2000000 {
			c.seen[hk] = cls
		}
	}
	switch out.Class {
	case "panic":
		addV("no-panic", "compile-panic:"+panicKey(out.Detail), where+" => panic "+out.Detail)
	case "abort":
		addV("bounded", "compile-abort:"+out.Detail, where+" => did not return within its budget ("+out.Detail+")")
	case "error":
		ctx.Count("rejected_after_fault", 1)
		if strings.HasPrefix(out.Detail, "BOTH") || strings.HasPrefix(out.Detail, "NEITHER") {
			addV("program-xor-error", "compile-"+strings.ToLower(strings.Fields(out.Detail)[0]), where+" => "+out.Detail)
		}
		if strings.TrimSpace(out.Detail) == "" {
			addV("error-prints", "compile-empty-error", where+" => an error with an empty message")
		}
	case "ok":
		ctx.Count("accepted_after_fault", 1)
		ctx.Count("holes_checked_programs", 1)
		for _, h := range findHoles(roots...) {
			if !c.allowed[h] {
				addV("no-holes", "compile-hole:"+h, where+" => accepted, but the returned program has a nil at "+h)
			}
		}
	}
	return res
}

// compileFromReader is the body of libvore.compile over an arbitrary reader.
func compileFromReader(r io.Reader) (roots []any, out Outcome) {
	defer func() {
		if x := recover(); x != nil {
			roots = nil
			out = panicOutcome(x)
		}
	}()
	commands, err := ast.ParseReader(r)
	if err != nil {
		if commands != nil {
			return nil, Outcome{Class: "error", Detail: "BOTH ast and error: " + err.Error()}
		}
		return nil, Outcome{Class: "error", Detail: err.Error()}
	}
	if commands == nil {
		return nil, Outcome{Class: "error", Detail: "NEITHER ast nor error"}
	}
	bc, err := bytecode.GenerateBytecode(commands)
	if err != nil {
		if bc != nil {
			return nil, Outcome{Class: "error", Detail: "BOTH bytecode and error: " + err.Error()}
		}
		return nil, Outcome{Class: "error", Detail: err.Error()}
	}
	if bc == nil {
		return nil, Outcome{Class: "error", Detail: "NEITHER bytecode nor error"}
	}
	// holes are looked for in the two halves
	return []any{commands, bc}, Outcome{Class: "ok"}
}

func doCompileFile(fn string) (v *libvore.Vore, out Outcome) {
	defer func() {
		if r := recover(); r != nil {
			v = nil
			out = panicOutcome(r)
		}
	}()
	v, err := libvore.CompileFile(fn)
	if err != nil {
		if v != nil {
			return nil, Outcome{Class: "error", Detail: "BOTH program and error: " + err.Error()}
		}
		return nil, Outcome{Class: "error", Detail: err.Error()}
	}
	if v == nil {
		return nil, Outcome{Class: "error", Detail: "NEITHER program nor error"}
	}
	return v, Outcome{Class: "ok"}
}
