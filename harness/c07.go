package main

// C07 — Searching a file gives the same result as searching its bytes in
// memory.
//
// Phase "reader": seek/read histories against files.ReaderFromFile on a real
// file of a boundary-biased size, with a byte-slice model as reference and
// files.ReaderFromString of the same bytes as cross-reference. History ops
// are the engine's own alphabet: Seek(o);Read(n) and ReadAt(n,o).
// Phase "engine": RunFiles([f], NOTHING) vs Run(string(bytes)) for corpus
// programs on generated contents whose matches straddle multiples of 2048.
// Phase "big" (thorough): the repository's example programs on their example
// files (up to 440 KB).

import (
	"fmt"
	"math/rand"
	"os"
	"path/filepath"
	"strings"

	"github.com/jmeaster30/vore/libvore"
	"github.com/jmeaster30/vore/libvore/engine"
	"github.com/jmeaster30/vore/libvore/files"
	"verif/simrt"
)

type c07 struct {
	env   *Env
	pool  []Item
	progs []*libvore.Vore
	big   []Item
}

func init() { register(&c07{}) }

func (c *c07) ID() string { return "C07" }

func (c *c07) Phases(tier string) []PhaseSpec {
	if tier == "thorough" {
		return []PhaseSpec{
			{Name: "reader", Runs: 400000, Note: "seek/read histories vs byte-slice model"},
			{Name: "engine", Runs: 40000, Note: "RunFiles(NOTHING) vs Run(string)"},
			{Name: "big", Runs: 0, Sweep: true, Note: "example programs on the example files"},
		}
	}
	return []PhaseSpec{
		{Name: "reader", Runs: 6000, Note: "seek/read histories vs byte-slice model"},
		{Name: "engine", Runs: 1600, Note: "RunFiles(NOTHING) vs Run(string)"},
	}
}

func (c *c07) Rule() string {
	return "reader: one run = a file of a boundary-biased size (0,1,2,3, 2047-2049, 4095-4097, ... 12289, random up to 20000) with position-dependent content, and a history of up to 300 Seek;Read / ReadAt ops biased to multiples of 2048 +-2, one byte back, far-back jumps and EOF, each compared with a byte-slice model and with the in-memory reader; non-trivial = the history made the buffered window re-centre at least once (a ReadAt system call after the priming read) or the file is empty/shorter than 4 bytes. engine: one run = a corpus program on a generated content with the program's sample text planted across 2048-multiples, file vs string; non-trivial = file larger than the 4096-byte window or empty, and at least one match or a boundary size. distinct = distinct (size, history) / (program, content) hashes among the non-trivial runs"
}

func (c *c07) Assumptions() []string {
	return []string{
		"the OS returns full reads on regular tmpfs files (short read(2) results are not injected: the property quantifies over contents and histories, not kernel behaviours)",
		"the in-memory reader (strings.Reader) is the definition of 'the same bytes in memory'",
	}
}

func (c *c07) ProbeNames() []string {
	return []string{"window_recentred", "window_recentred_backward", "window_clamped_at_file_end", "file_shorter_than_window", "empty_file", "read_longer_than_window", "read_straddles_2048_multiple", "engine_file_larger_than_window", "engine_matches_compared", "engine_match_straddles_2048_multiple", "two_readers_interleaved", "content_starts_with_bom", "engine_file_64k_or_more", "reader_file_64k_or_more", "delivered_through_symlink", "delivered_through_directory_with_symlink"}
}

func (c *c07) SweepPrefix(phase string, i uint64) []uint64 {
	if i < uint64(len(c.big)) {
		return []uint64{i}
	}
	return nil
}
func (c *c07) SweepCount(string) uint64 { return uint64(len(c.big)) }

var c07extra = []Item{
	{Name: "c07-greedy-backtrack", Src: "find all file start at least 1 any 'END'", Text: "xxENDyy END zz"},
	{Name: "c07-lines", Src: "find all line start at least 1 (not whitespace) line end", Text: "alpha\nbeta gamma\ndelta\n"},
	{Name: "c07-whole-line", Src: "find all whole line", Text: "one\ntwo\r\nthree\n\nfour"},
	{Name: "c07-bigwords", Src: "find all word start at least 8 letter word end", Text: "small enormousword tiny gigantically"},
	{Name: "c07-file-end", Src: "find all at least 1 letter file end", Text: "abc def"},
	{Name: "c07-whole-file", Src: "find all whole file", Text: "abc\ndef"},
	{Name: "c07-long-match", Src: "find all 'B' at least 1 (not 'E') 'E'", Text: "B...E"},
	{Name: "c07-backref-far", Src: "find all (exactly 4 letter) = w at least 1 any fewest w", Text: "abcd....abcd"},
	{Name: "c07-replace", Src: "replace all at least 1 digit with '<' value '>'", Text: "a1 22 b333"},
	{Name: "c07-line-end-crlf", Src: "find all letter line end", Text: "ab\r\ncd\nef"},
}

func (c *c07) Init(env *Env) error {
	c.env = env
	corp, err := loadCorpus(env.VerifDir)
	if err != nil {
		return err
	}
	items := append(append([]Item{}, c07extra...), corp.Items...)
	simrt.Reset(1, nil, 3)
	simrt.Solo()
	for _, it := range items {
		if len(it.Text) > 300 {
			it.Text = it.Text[:300]
		}
		rand.Seed(99)
		v, oc := doCompile(it.Src)
		if oc.Class != "ok" || v == nil {
			continue
		}
		c.pool = append(c.pool, it)
		c.progs = append(c.progs, v)
		if it.File != "" {
			c.big = append(c.big, it)
		}
	}
	simrt.Stop()
	// the remaining example files with the frankenstein programs
	if len(c.pool) < 30 {
		return fmt.Errorf("C07: corpus too small: %d", len(c.pool))
	}
	return nil
}

var c07sizes = []int{0, 1, 2, 3, 2047, 2048, 2049, 4095, 4096, 4097, 6143, 6144, 6145, 8191, 8192, 8193, 12287, 12288, 12289}

func drawSize(t *Tape, maxRandom int) int {
	k := t.Draw(len(c07sizes) + 7)
	if k < len(c07sizes) {
		return c07sizes[k]
	}
	switch k - len(c07sizes) {
	case 0, 1:
		return t.Range(4, 64)
	case 2:
		return t.Range(65, 2046)
	case 3:
		return t.Range(2050, 4094)
	case 4:
		// now and then far above the usual sizes: around 64 KiB, 128 KiB, 256 KiB
		if t.Draw(6) == 1 {
			huge := []int{65535, 65536, 65537, 98304, 131071, 131073, 262145}
			if maxRandom < 20000 {
				huge = huge[:3]
			}
			return huge[t.Draw(len(huge))]
		}
		return t.Range(4098, maxRandom)
	default:
		return t.Range(4098, maxRandom)
	}
}

// posContent gives non-periodic, position-dependent bytes.
func posContent(size int, salt uint64) []byte {
	b := make([]byte, size)
	mode := salt % 4 // 0,1 printable; 2 arbitrary bytes; 3 printable behind a UTF-8 byte order mark
	for i := range b {
		h := mix(uint64(i), salt)
		ch := byte(' ' + h%90)
		if h%23 == 0 {
			ch = '\n'
		}
		if mode == 2 {
			ch = byte(h >> 8)
		}
		b[i] = ch
	}
	if mode == 3 && size >= 3 {
		b[0], b[1], b[2] = 0xEF, 0xBB, 0xBF
	}
	return b
}

type c07rop struct {
	File string `json:"file,omitempty"`
	Op   string `json:"op"`
	O    int    `json:"offset"`
	N    int    `json:"length"`
	Got  string `json:"got,omitempty"`
}

type c07readerDesc struct {
	Size int      `json:"file_size"`
	Salt uint64   `json:"content_salt"`
	Ops  []c07rop `json:"history"`
}

func safeRead(r *files.Reader, readAt bool, n, o int) (s string, p string) {
	defer func() {
		if x := recover(); x != nil {
			p = panicOutcome(x).Detail
		}
	}()
	if readAt {
		return r.ReadAt(n, o), ""
	}
	r.Seek(o)
	return r.Read(n), ""
}

func (c *c07) Run(ctx *RunCtx) *RunResult {
	switch ctx.Phase {
	case "engine":
		return c.runEngine(ctx)
	case "big":
		return c.runBig(ctx)
	}
	return c.runReader(ctx)
}

type c07rd struct {
	name    string
	size    int
	content []byte
	fr, mr  *files.Reader
	lastO   int
	lastN   int
}

func (c *c07) runReader(ctx *RunCtx) *RunResult {
	t := ctx.T
	res := &RunResult{}
	addV := func(oracle, key, detail string) {
		if !hasKey(res.Violations, key) {
			res.Violations = append(res.Violations, Violation{oracle, key, detail})
		}
	}
	size := drawSize(t, 20000)
	salt := uint64(t.Draw(1 << 20))
	rds := []*c07rd{{name: "reader.bin", size: size, content: posContent(size, salt)}}
	// sometimes a second reader on a second file, alive at the same time and used alternately
	if t.Draw(3) == 1 {
		s2 := drawSize(t, 20000)
		rds = append(rds, &c07rd{name: "reader2.bin", size: s2, content: posContent(s2, salt+1)})
		ctx.Count("two_readers_interleaved", 1)
	}
	nops := t.Range(1, 300)
	d := &c07readerDesc{Size: size, Salt: salt}
	simrt.Reset(1, soloPlan(t, treeSpawnsCached(c.env), 20000), 1)
	simrt.Solo()
	simrt.OpStart(40000000)
	evh := mix(uint64(size), salt)
	for _, r := range rds {
		path := filepath.Join(ctx.World, r.name)
		if err := os.WriteFile(path, r.content, 0644); err != nil {
			panic(err)
		}
		func() {
			defer func() {
				if x := recover(); x != nil {
					addV("no-panic", "reader-open-panic:"+coarse(panicOutcome(x).Detail), fmt.Sprintf("files.ReaderFromFile on a %d-byte file panics: %s", r.size, panicOutcome(x).Detail))
				}
			}()
			r.fr = files.ReaderFromFile(path)
		}()
		r.mr = files.ReaderFromString(string(r.content))
		if r.fr != nil && r.fr.Size() != r.size {
			addV("model", "reader-size", fmt.Sprintf("Size() = %d for a %d-byte file (first bytes % x)", r.fr.Size(), r.size, r.content[:min(4, len(r.content))]))
		}
		if len(r.content) >= 3 && r.content[0] == 0xEF && r.content[1] == 0xBB && r.content[2] == 0xBF {
			ctx.Count("content_starts_with_bom", 1)
		}
	}
	var sig []uint64
	dead := false
	for _, r := range rds {
		if r.fr == nil {
			dead = true
		}
	}
	for k := 0; k < nops && !dead; k++ {
		r := rds[0]
		if len(rds) > 1 && t.Draw(2) == 1 {
			r = rds[1]
		}
		size := r.size
		var o, n int
		switch t.Draw(9) {
		case 0:
			o = r.lastO + r.lastN // sequential forward
		case 1:
			o = r.lastO - 1 // one byte back (anchors)
		case 2:
			o = 2048*t.Range(0, size/2048+1) + t.Range(0, 4) - 2
		case 3:
			o = size - t.Range(0, 3)
		case 4:
			o = t.Range(0, 3)
		case 5:
			o = r.lastO - t.Range(1, 5000) // far back (backtracking)
		case 6:
			o = r.lastO + t.Range(1, 5000)
		default:
			o = t.Range(0, size)
		}
		if o < 0 {
			o = 0
		}
		if o > size {
			o = size
		}
		switch t.Draw(8) {
		case 0:
			n = 1
		case 1:
			n = 0
		case 2:
			n = 2
		case 3:
			n = t.Range(1, 16)
		case 4:
			n = t.Range(1, 100)
		case 5:
			n = t.Range(4000, 5000)
		case 6:
			n = size - o
		default:
			n = 1
		}
		readAt := t.Draw(4) == 0
		want := ""
		if o+n-1 < size && n >= 0 {
			want = string(r.content[o : o+n])
		}
		if n > 4096 {
			ctx.Count("read_longer_than_window", 1)
		}
		if n > 0 && o/2048 != (o+n-1)/2048 {
			ctx.Count("read_straddles_2048_multiple", 1)
		}
		got, pf := safeRead(r.fr, readAt, n, o)
		gotM, pm := safeRead(r.mr, readAt, n, o)
		op := c07rop{Op: map[bool]string{true: "ReadAt", false: "Seek;Read"}[readAt], O: o, N: n, File: r.name}
		sig = append(sig, mix(uint64(o), uint64(n), b2u(readAt), hashStr(r.name)))
		evh = mix(evh, hashStr(got), hashStr(pf))
		if pf != "" {
			op.Got = "PANIC " + pf
			addV("no-panic", "reader-file-panic:"+coarse(pf), fmt.Sprintf("file reader: %s(offset %d, length %d) on the %d-byte file %s panics: %s", op.Op, o, n, size, r.name, pf))
		} else if got != want {
			op.Got = trunc(got, 40)
			addV("model", "reader-file-wrong-bytes", fmt.Sprintf("file reader: %s(offset %d, length %d) on the %d-byte file %s (op %d of the history, %d reader(s) open) returned %q, the file holds %q", op.Op, o, n, size, r.name, k, len(rds), trunc(got, 60), trunc(want, 60)))
		}
		if pm != "" {
			addV("no-panic", "reader-memory-panic:"+coarse(pm), fmt.Sprintf("in-memory reader: %s(offset %d, length %d) on %d bytes panics: %s", op.Op, o, n, size, pm))
		} else if gotM != want {
			addV("model", "reader-memory-wrong-bytes", fmt.Sprintf("in-memory reader: %s(offset %d, length %d) on %d bytes returned %q, want %q", op.Op, o, n, size, trunc(gotM, 60), trunc(want, 60)))
		}
		if len(d.Ops) < 40 {
			d.Ops = append(d.Ops, op)
		}
		r.lastO, r.lastN = o, n
		if pf != "" {
			break // the reader is in an unknown state after a panic
		}
	}
	for _, r := range rds {
		if r.fr != nil {
			func() {
				defer func() { recover() }()
				r.fr.Close()
			}()
		}
	}
	simrt.OpEnd()
	res.Steps = simrt.Steps
	// probes from the system-call history
	recentres, backward, clamped := 0, 0, 0
	prev := -1
	for _, e := range simrt.IOEvents() {
		if e.Op == "readat" {
			recentres++
			if prev >= 0 && e.Flags < prev {
				backward++
			}
			if size > 4096 && e.Flags == size-4096 {
				clamped++
			}
			prev = e.Flags
		}
	}
	simrt.Stop()
	ctx.Count("window_recentred", uint64(recentres))
	ctx.Count("window_recentred_backward", uint64(backward))
	ctx.Count("window_clamped_at_file_end", uint64(clamped))
	if size < 4096 {
		ctx.Count("file_shorter_than_window", 1)
	}
	if size >= 65535 {
		ctx.Count("reader_file_64k_or_more", 1)
	}
	if size == 0 {
		ctx.Count("empty_file", 1)
	}
	res.Nontrivial = recentres > 0 || size < 4
	res.EventHash = evh
	res.Sig = mix(append(sig, uint64(size), salt)...)
	res.Desc = d
	return res
}

type c07engDesc struct {
	Program string `json:"program"`
	Size    int    `json:"file_size"`
	Plants  []int  `json:"sample_text_planted_at"`
	Head    string `json:"content_head"`
	File    string `json:"file_result,omitempty"`
	Mem     string `json:"memory_result,omitempty"`
}

var fillerWords = []string{"lorem", "ipsum", "dolor", "sit", "amet", "12", "consectetur", "A", "adipiscing", "elit", "3.14", "sed", "Do", "eiusmod", "tempor", "x", "incididunt", "42", "ut", "labore"}

func genContent(t *Tape, size int, plant string, salt uint64) ([]byte, []int) {
	b := make([]byte, 0, size+32)
	i := uint64(0)
	for len(b) < size {
		h := mix(i, salt)
		b = append(b, fillerWords[h%uint64(len(fillerWords))]...)
		switch {
		case h%11 == 0:
			b = append(b, '\n')
		case h%29 == 1:
			b = append(b, '\r', '\n')
		case h%17 == 2:
			b = append(b, '\t')
		default:
			b = append(b, ' ')
		}
		i++
	}
	b = b[:size]
	switch salt % 5 {
	case 3:
		if size >= 3 {
			b[0], b[1], b[2] = 0xEF, 0xBB, 0xBF // UTF-8 byte order mark
		}
	case 4:
		for k := 0; k < size; k += 97 {
			b[k] = byte(mix(uint64(k), salt)) // sprinkle arbitrary bytes
		}
	}
	var plants []int
	if len(plant) > 0 && size > 0 {
		np := t.Range(0, 4)
		for k := 0; k < np; k++ {
			var p int
			switch t.Draw(4) {
			case 0:
				// straddle a multiple of 2048
				m := 2048 * t.Range(1, size/2048+1)
				p = m - t.Range(0, len(plant))
			case 1:
				p = size - len(plant) // end of file
			case 2:
				p = 0
			default:
				p = t.Range(0, size)
			}
			if p < 0 {
				p = 0
			}
			if p+len(plant) > size {
				p = size - len(plant)
			}
			if p < 0 {
				continue
			}
			copy(b[p:], plant)
			plants = append(plants, p)
		}
	}
	return b, plants
}

// deliveryOf picks, from the content's own hash so that no tape draw is needed, how the
// file reaches RunFiles: 0 its path, 1 a symbolic link to it, 2 a directory holding a link to it.
func deliveryOf(path string) int {
	b, err := os.ReadFile(path)
	if err != nil {
		return 0
	}
	switch hashStr(string(b)) % 8 {
	case 1:
		return 1
	case 2:
		return 2
	}
	return 0
}

func (c *c07) compare(ctx *RunCtx, res *RunResult, v *libvore.Vore, src string, path string, content []byte, budget uint64) (string, string, bool) {
	addV := func(oracle, key, detail string) {
		if !hasKey(res.Violations, key) {
			res.Violations = append(res.Violations, Violation{oracle, key, detail})
		}
	}
	simrt.OpStart(budget)
	om := doRun(v, string(content))
	simrt.OpEnd()
	simrt.OpStart(budget)
	arg := path
	switch deliveryOf(path) {
	case 1: // through a symbolic link to the file
		arg = path + ".lnk"
		os.Remove(arg)
		os.Symlink(path, arg)
		ctx.Count("delivered_through_symlink", 1)
	case 2: // as the only entry, a symbolic link, of a directory argument
		dir := path + ".d"
		os.RemoveAll(dir)
		os.MkdirAll(dir, 0755)
		os.Symlink(path, filepath.Join(dir, "entry.txt"))
		arg = dir
		ctx.Count("delivered_through_directory_with_symlink", 1)
	}
	of, fm := doRunFiles(v, []string{arg}, engine.NOTHING, "")
	simrt.OpEnd()
	if om.Class == "abort" || of.Class == "abort" {
		ctx.Count("engine_discarded_budget", 1)
		return of.String(), om.String(), false
	}
	// digest without filenames
	fd := of
	if of.Class == "ok" {
		fd.Digest = matchesDigest(fm, false, "")
	}
	ctx.Count("engine_matches_compared", uint64(om.N))
	for _, m := range fm {
		if m.Offset.Start/2048 != (m.Offset.End-1)/2048 {
			ctx.Count("engine_match_straddles_2048_multiple", 1)
		}
	}
	if !fd.Same(om) {
		key := "engine-file-vs-memory:" + fd.Class + "/" + om.Class
		if fd.Class == "panic" {
			key += ":" + coarse(fd.Detail)
		}
		if om.Class == "panic" {
			key += ":" + coarse(om.Detail)
		}
		// first differing position for the reader
		a, b := fd.String(), om.String()
		i := 0
		for i < len(a) && i < len(b) && a[i] == b[i] {
			i++
		}
		lo := i - 60
		if lo < 0 {
			lo = 0
		}
		addV("file-vs-memory", key, fmt.Sprintf("program %q on a %d-byte file: RunFiles gives …%s, Run on the same bytes gives …%s", trunc(src, 100), len(content), trunc(a[lo:], 220), trunc(b[lo:], 220)))
	}
	return fd.String(), om.String(), true
}

func (c *c07) runEngine(ctx *RunCtx) *RunResult {
	t := ctx.T
	res := &RunResult{}
	pi := t.Draw(len(c.pool))
	it := c.pool[pi]
	size := drawSize(t, 14000)
	salt := uint64(t.Draw(1 << 20))
	plant := it.Text
	if t.Draw(5) == 1 && len(plant) > 1 {
		plant = plant[:len(plant)/2]
	}
	content, plants := genContent(t, size, plant, salt)
	path := filepath.Join(ctx.World, "engine.txt")
	if err := os.WriteFile(path, content, 0644); err != nil {
		panic(err)
	}
	simrt.Reset(1, soloPlan(t, treeSpawnsCached(c.env), 200000), uint64(t.Draw(1<<20)))
	simrt.Solo()
	rand.Seed(5)
	budget := uint64(6000000)
	if size > 20000 {
		budget = 60000000
		ctx.Count("engine_file_64k_or_more", 1)
	}
	fs, ms, ok := c.compare(ctx, res, c.progs[pi], it.Src, path, content, budget)
	res.Steps = simrt.Steps
	simrt.Stop()
	if size > 4096 {
		ctx.Count("engine_file_larger_than_window", 1)
	}
	if size == 0 {
		ctx.Count("empty_file", 1)
	}
	boundary := false
	for _, s := range c07sizes {
		if s == size {
			boundary = true
		}
	}
	res.Nontrivial = ok && (size > 4096 || size == 0 || boundary)
	res.EventHash = mix(hashStr(fs), hashStr(ms))
	res.Sig = mix(uint64(pi), hashStr(string(content)))
	res.Desc = &c07engDesc{Program: trunc(it.Src, 200), Size: size, Plants: plants, Head: trunc(string(content), 80), File: trunc(fs, 200), Mem: trunc(ms, 200)}
	return res
}

func (c *c07) runBig(ctx *RunCtx) *RunResult {
	t := ctx.T
	res := &RunResult{}
	bi := t.Draw(len(c.big))
	it := c.big[bi]
	src := filepath.Join(c.env.RepoDir, it.File)
	content, err := os.ReadFile(src)
	if err != nil {
		res.Desc = "example file missing: " + it.File
		return res
	}
	path := filepath.Join(ctx.World, "big.txt")
	os.WriteFile(path, content, 0644)
	var v *libvore.Vore
	for i, p := range c.pool {
		if p.Name == it.Name {
			v = c.progs[i]
		}
	}
	simrt.Reset(1, nil, 11)
	simrt.Solo()
	fs, ms, ok := c.compare(ctx, res, v, it.Src, path, content, 4000000000)
	res.Steps = simrt.Steps
	simrt.Stop()
	res.Nontrivial = ok
	res.EventHash = mix(hashStr(fs), hashStr(ms))
	res.Sig = mix(uint64(bi), 77)
	res.Desc = &c07engDesc{Program: trunc(it.Src, 200), Size: len(content), Head: it.File, File: trunc(fs, 200), Mem: trunc(ms, 200)}
	return res
}

var _ = strings.Repeat
