package main

// C20 — A -files pattern selects exactly the files it describes.
//
// The simulator's contribution is the world: a seeded directory tree (depth
// <= 3, names over a small alphabet with dots and repeated substrings, files
// and directories sharing stems, empty directories) on the real file system.
// Per tree several relative and absolute patterns with 0–3 stars per segment
// are evaluated with files.ParsePath(p).GetFileList(dir) and compared with a
// segment-wise reference glob over the model tree.

import (
	"fmt"
	"os"
	"path/filepath"
	"sort"
	"strings"

	"github.com/jmeaster30/vore/libvore/files"
	"verif/simrt"
)

type c20 struct {
	env    *Env
	spawns bool
}

func init() { register(&c20{}) }

func (c *c20) ID() string { return "C20" }

func (c *c20) Phases(tier string) []PhaseSpec {
	if tier == "thorough" {
		return []PhaseSpec{{Name: "trees", Runs: 400000, Note: "seeded directory trees x 8 patterns each"}}
	}
	return []PhaseSpec{{Name: "trees", Runs: 30000, Note: "seeded directory trees x 8 patterns each"}}
}

func (c *c20) Rule() string {
	return "one run = a seeded directory tree on the real file system (depth <= 3, 0-4 entries per directory, names of 1-6 characters over {a,b,t,x,.} biased to repeated substrings such as a.txt.txt, files and directories sharing stems, empty directories) and 8 patterns, relative and absolute, derived from existing paths by replacing substrings of each segment with up to 3 stars or generated freely; star-only directory segments and ./.. segments are excluded as the property says; result (cleaned paths) must equal the segment-wise reference glob over the model tree as a set, without duplicates and without directories; non-trivial evaluation = the pattern has a star and the reference set is non-empty or some file in the tree shares a literal piece with the pattern; distinct = distinct (tree, pattern) hashes among those (each run contributes one signature: the hash of its tree and all its patterns)"
}

func (c *c20) Assumptions() []string {
	return []string{
		"the reference is a recursive star matcher per path segment; '*' stands for any run of characters (including none) within one segment",
		"patterns with star-only directory segments or ./.. segments are not generated (excluded by the property)",
	}
}

func (c *c20) ProbeNames() []string {
	return []string{"pattern_with_star", "pattern_with_two_or_more_stars_in_segment", "absolute_pattern", "wildcard_directory_segment", "expected_set_nonempty", "match_requires_non_first_occurrence", "directory_and_file_share_stem", "directory_name_matches_file_segment", "empty_directory", "large_directory", "wide_fanout_of_directories", "symbolic_links_in_tree"}
}

func (c *c20) SweepPrefix(string, uint64) []uint64 { return nil }
func (c *c20) SweepCount(string) uint64            { return 0 }
func (c *c20) Init(env *Env) error {
	c.env = env
	c.spawns = treeSpawns(env)
	return nil
}

type c20node struct {
	name string
	dir  bool
	kids []*c20node
	link *c20node // a symbolic link to this node (a directory or a file elsewhere in the tree)
}

var c20stems = []string{"a", "b", "ab", "a.txt", "txt", ".txt", "x", "t", "aa", "ba", "a.b", ".", "\u00e9", "\U0001F600", "\u65e5", "_"}

func c20name(t *Tape) string {
	n := t.Range(1, 3)
	s := ""
	for i := 0; i < n; i++ {
		s += c20stems[t.Draw(len(c20stems))]
	}
	if r := []rune(s); len(r) > 8 {
		s = string(r[:8])
	}
	if s == "." || s == ".." {
		s = "a" + s
	}
	return s
}

func c20tree(t *Tape, depth int) []*c20node {
	n := t.Range(0, 4)
	if depth == 0 && n == 0 {
		n = 1
	}
	var out []*c20node
	used := map[string]bool{}
	for i := 0; i < n; i++ {
		nm := c20name(t)
		if i > 0 && t.Draw(4) == 0 {
			// share a stem with a sibling: "ab" and "ab.txt", "ab" and "abab"
			nm = out[t.Draw(len(out))].name + []string{".txt", "a", ".", "b", ".txt.txt"}[t.Draw(5)]
		}
		if used[nm] {
			continue
		}
		used[nm] = true
		nd := &c20node{name: nm}
		if depth < 3 && t.Draw(3) == 0 {
			nd.dir = true
			nd.kids = c20tree(t, depth+1)
		}
		out = append(out, nd)
	}
	return out
}

func c20materialise(dir string, nodes []*c20node) {
	for _, n := range nodes {
		p := filepath.Join(dir, n.name)
		if n.link != nil {
			continue // links are made once their targets exist (c20links)
		}
		if n.dir {
			os.Mkdir(p, 0755)
			c20materialise(p, n.kids)
		} else {
			os.WriteFile(p, []byte("x"), 0644)
		}
	}
}

// c20links creates the symbolic links of the tree; targetPath gives the absolute path of a node.
func c20links(dir string, nodes []*c20node, targetPath map[*c20node]string) {
	for _, n := range nodes {
		p := filepath.Join(dir, n.name)
		if n.link != nil {
			os.Symlink(targetPath[n.link], p)
			continue
		}
		if n.dir {
			c20links(p, n.kids, targetPath)
		}
	}
}

func c20index(dir string, nodes []*c20node, targetPath map[*c20node]string) {
	for _, n := range nodes {
		p := filepath.Join(dir, n.name)
		targetPath[n] = p
		if n.dir && n.link == nil {
			c20index(p, n.kids, targetPath)
		}
	}
}

// view of a node through links: is it a directory, and which entries does it hold
func (n *c20node) isDir() bool {
	if n.link != nil {
		return n.link.isDir()
	}
	return n.dir
}

func (n *c20node) entries() []*c20node {
	if n.link != nil {
		return n.link.entries()
	}
	return n.kids
}

func c20paths(prefix string, nodes []*c20node, files *[]string, dirs *[]string) {
	for _, n := range nodes {
		p := n.name
		if prefix != "" {
			p = prefix + "/" + n.name
		}
		if n.link != nil {
			// listed for pattern derivation only; what is behind a link is reached through the reference glob
			if n.isDir() {
				*dirs = append(*dirs, p)
				for _, k := range n.entries() {
					if !k.isDir() {
						*files = append(*files, p+"/"+k.name)
					}
				}
			} else {
				*files = append(*files, p)
			}
			continue
		}
		if n.dir {
			*dirs = append(*dirs, p)
			c20paths(p, n.kids, files, dirs)
		} else {
			*files = append(*files, p)
		}
	}
}

// reference glob over the model tree
// c20ambiguous is set when the last segment matches a symbolic link to a directory:
// whether that is "a file" is not something the property settles, so the evaluation is skipped.
var c20ambiguous bool

func c20ref(prefix string, nodes []*c20node, segs []string, out *[]string) {
	if len(segs) == 1 {
		for _, n := range nodes {
			if !starMatch(segs[0], n.name) {
				continue
			}
			if n.link != nil && n.isDir() {
				c20ambiguous = true
			}
			if !n.isDir() {
				*out = append(*out, prefix+n.name)
			}
		}
		return
	}
	for _, n := range nodes {
		if n.isDir() && starMatch(segs[0], n.name) {
			c20ref(prefix+n.name+"/", n.entries(), segs[1:], out)
		}
	}
}

// firstOccurrence mirrors a naive "jump to the first occurrence of the text
// after a star" matcher. Used for a reach probe only, never as an oracle.
func firstOccurrence(pat, name string) bool {
	parts := strings.Split(pat, "*")
	if len(parts) == 1 {
		return pat == name
	}
	if !strings.HasPrefix(name, parts[0]) {
		return false
	}
	name = name[len(parts[0]):]
	for i := 1; i < len(parts); i++ {
		if i == len(parts)-1 {
			return strings.HasSuffix(name, parts[i]) && (parts[i] == "" || strings.Index(name, parts[i]) == len(name)-len(parts[i]))
		}
		j := strings.Index(name, parts[i])
		if j < 0 {
			return false
		}
		name = name[j+len(parts[i]):]
	}
	return true
}

func starify(t *Tape, seg string) string {
	k := t.Draw(5) // 0 literal, 1..3 stars, 4 free
	if k == 0 {
		return seg
	}
	if k == 4 {
		s := ""
		n := t.Range(1, 4)
		for i := 0; i < n; i++ {
			s += []string{"*", "a", "b", ".", "t", "x", ".txt", "*"}[t.Draw(8)]
		}
		return s
	}
	b := seg
	for i := 0; i < k; i++ {
		if len(b) == 0 {
			b = "*"
			continue
		}
		lo := t.Draw(len(b) + 1)
		hi := lo + t.Draw(len(b)-lo+1)
		if t.Draw(3) == 0 {
			hi = lo // insert a star that must match the empty string
		}
		b = b[:lo] + "*" + b[hi:]
	}
	for strings.Contains(b, "****") {
		b = strings.ReplaceAll(b, "****", "***")
	}
	return b
}

type c20eval struct {
	Pattern  string   `json:"pattern"`
	Absolute bool     `json:"absolute"`
	Got      []string `json:"got"`
	Want     []string `json:"want"`
}

type c20desc struct {
	Files []string  `json:"files"`
	Dirs  []string  `json:"directories"`
	Evals []c20eval `json:"evaluations"`
}

func (c *c20) Run(ctx *RunCtx) *RunResult {
	t := ctx.T
	res := &RunResult{}
	addV := func(oracle, key, detail string) {
		if !hasKey(res.Violations, key) {
			res.Violations = append(res.Violations, Violation{oracle, key, detail})
		}
	}
	root := filepath.Join(ctx.World, "t")
	os.RemoveAll(root)
	os.MkdirAll(root, 0755)
	tree := c20tree(t, 0)
	// now and then one directory is large: more entries than any single directory read returns at once
	if t.Draw(40) == 1 {
		big := &c20node{name: "BIG", dir: true}
		n := t.Range(120, 700)
		for i := 0; i < n; i++ {
			nm := fmt.Sprintf("f%d.%s", i, []string{"txt", "a", "b.txt"}[i%3])
			if i%11 == 5 {
				nm = fmt.Sprintf("f%d_\U0001F600.txt", i) // a character beyond the basic multilingual plane
			}
			big.kids = append(big.kids, &c20node{name: nm})
		}
		tree = append(tree, big)
		ctx.Count("large_directory", 1)
	}
	// now and then a wide fan-out of sub-directories two levels down (a wildcard then sits in the third segment)
	if t.Draw(40) == 2 {
		wide := &c20node{name: "W", dir: true}
		n := t.Range(30, 80)
		for i := 0; i < n; i++ {
			wide.kids = append(wide.kids, &c20node{name: fmt.Sprintf("d%d", i), dir: true, kids: []*c20node{{name: fmt.Sprintf("f%d.txt", i%7)}, {name: "a"}}})
		}
		tree = append(tree, &c20node{name: "X", dir: true, kids: []*c20node{wide, {name: "a"}}})
		ctx.Count("wide_fanout_of_directories", 1)
	}
	// symbolic links to a directory and to a file kept elsewhere in the tree
	if t.Draw(6) == 1 {
		store := &c20node{name: "STORE", dir: true, kids: []*c20node{
			{name: "core", dir: true, kids: []*c20node{{name: "a.txt"}, {name: "b"}, {name: "ab.txt"}}},
			{name: "one.txt"},
		}}
		tree = append(tree, store)
		host := &c20node{name: "PK", dir: true, kids: []*c20node{{name: "core", link: store.kids[0]}, {name: "l.txt", link: store.kids[1]}, {name: "a.txt"}}}
		tree = append(tree, host)
		ctx.Count("symbolic_links_in_tree", 1)
	}
	c20materialise(root, tree)
	targetPath := map[*c20node]string{}
	c20index(root, tree, targetPath)
	c20links(root, tree, targetPath)
	var fileList, dirList []string
	c20paths("", tree, &fileList, &dirList)
	sort.Strings(fileList)
	sort.Strings(dirList)
	d := &c20desc{Files: fileList, Dirs: dirList}
	for _, dn := range dirList {
		for _, fn := range fileList {
			if filepath.Dir(dn) == filepath.Dir(fn) && strings.HasPrefix(filepath.Base(fn), filepath.Base(dn)) {
				ctx.Count("directory_and_file_share_stem", 1)
			}
		}
	}
	var emptyDirs func(nodes []*c20node)
	emptyDirs = func(nodes []*c20node) {
		for _, n := range nodes {
			if n.dir {
				if len(n.kids) == 0 {
					ctx.Count("empty_directory", 1)
				}
				emptyDirs(n.kids)
			}
		}
	}
	emptyDirs(tree)
	all := append(append([]string{}, fileList...), dirList...)
	simrt.Reset(1, soloPlan(t, treeSpawnsCached(c.env), 400), 1)
	simrt.Solo()
	evh := hashStr(strings.Join(all, "|"))
	sig := []uint64{evh}
	for k := 0; k < 8; k++ {
		// base path: an existing file or directory path, or a free one
		var segs []string
		if len(all) > 0 && t.Draw(6) != 0 {
			segs = strings.Split(all[t.Draw(len(all))], "/")
			if t.Draw(5) == 0 {
				segs = append(segs, c20name(t)) // one level deeper than exists
			}
		} else {
			n := t.Range(1, 3)
			for i := 0; i < n; i++ {
				segs = append(segs, c20name(t))
			}
		}
		excluded := false
		for i := range segs {
			segs[i] = starify(t, segs[i])
			if i < len(segs)-1 && strings.Trim(segs[i], "*") == "" {
				excluded = true // star-only directory segment
			}
			if segs[i] == "." || segs[i] == ".." || segs[i] == "" {
				excluded = true
			}
		}
		abs := t.Draw(3) == 0
		if excluded {
			ctx.Count("excluded_pattern", 1)
			continue
		}
		pat := strings.Join(segs, "/")
		var want []string
		c20ambiguous = false
		c20ref("", tree, segs, &want)
		if c20ambiguous {
			ctx.Count("excluded_pattern", 1)
			continue
		}
		sort.Strings(want)
		arg := pat
		cwd := root
		if abs {
			arg = root + "/" + pat
			cwd = "/"
			ctx.Count("absolute_pattern", 1)
		}
		var got []string
		var pan string
		simrt.OpStart(5000000)
		func() {
			defer func() {
				if r := recover(); r != nil {
					pan = panicOutcome(r).Detail
				}
			}()
			got = files.ParsePath(arg).GetFileList(cwd)
		}()
		simrt.OpEnd()
		sig = append(sig, hashStr(arg))
		if pan != "" {
			addV("no-panic", "glob-panic:"+coarse(pan), fmt.Sprintf("pattern %q panics: %s", pat, pan))
			continue
		}
		var rel []string
		dup := map[string]int{}
		for _, g := range got {
			r := strings.TrimPrefix(filepath.Clean(g), root+"/")
			rel = append(rel, r)
			dup[r]++
		}
		sort.Strings(rel)
		evh = mix(evh, hashStr(pat), hashStr(strings.Join(rel, "|")))
		hasStar := strings.Contains(pat, "*")
		if hasStar {
			ctx.Count("pattern_with_star", 1)
		}
		for i, s := range segs {
			if strings.Count(s, "*") >= 2 {
				ctx.Count("pattern_with_two_or_more_stars_in_segment", 1)
			}
			if i < len(segs)-1 && strings.Contains(s, "*") {
				ctx.Count("wildcard_directory_segment", 1)
			}
		}
		if len(want) > 0 {
			ctx.Count("expected_set_nonempty", 1)
			for _, w := range want {
				if !firstOccurrence(segs[len(segs)-1], filepath.Base(w)) {
					ctx.Count("match_requires_non_first_occurrence", 1)
				}
			}
		}
		for _, dn := range dirList {
			ds := strings.Split(dn, "/")
			if len(ds) == len(segs) && starMatch(segs[len(segs)-1], ds[len(ds)-1]) {
				ctx.Count("directory_name_matches_file_segment", 1)
			}
		}
		if hasStar && (len(want) > 0 || len(fileList) > 0) {
			res.Nontrivial = true
		}
		if len(d.Evals) < 8 {
			d.Evals = append(d.Evals, c20eval{Pattern: pat, Absolute: abs, Got: rel, Want: want})
		}
		isFile := map[string]bool{}
		for _, f := range fileList {
			isFile[f] = true
		}
		wantSet := map[string]bool{}
		for _, w := range want {
			wantSet[w] = true
		}
		for r, n := range dup {
			if n > 1 {
				addV("no-duplicates", "glob-duplicate", fmt.Sprintf("pattern %q (absolute=%v) lists %s %d times; tree files=%v dirs=%v", pat, abs, r, n, fileList, dirList))
			}
			if !isFile[r] {
				addV("regular-files-only", "glob-non-file", fmt.Sprintf("pattern %q (absolute=%v) lists %s, which is not a regular file of the tree; tree files=%v dirs=%v", pat, abs, r, fileList, dirList))
			} else if !wantSet[r] {
				addV("exact-set", "glob-extra", fmt.Sprintf("pattern %q (absolute=%v) selects %s, which does not match it segment by segment; tree files=%v dirs=%v", pat, abs, r, fileList, dirList))
			}
		}
		for _, w := range want {
			if dup[w] == 0 {
				addV("exact-set", "glob-missing", fmt.Sprintf("pattern %q (absolute=%v) does not select %s, which matches it segment by segment; got %v; tree files=%v dirs=%v", pat, abs, w, rel, fileList, dirList))
			}
		}
	}
	res.Steps = simrt.Steps
	simrt.Stop()
	res.EventHash = evh
	res.Sig = mix(sig...)
	res.Desc = d
	return res
}
