package main

import (
	"encoding/json"
	"os"
	"sort"
	"strings"
)

type inventoryFile struct {
	Sites []struct {
		ID   int    `json:"id"`
		Kind string `json:"kind"`
	} `json:"sites"`
	PkgVars    []string       `json:"package_vars"`
	Rewrites   map[string]int `json:"rewrites"`
	Warnings   []string       `json:"warnings"`
	Unmodelled []string       `json:"unmodelled_sync"`
	GoStmts    []string       `json:"go_statements"`
}

func (d *driver) writeEvidence(path string, wall float64, nViol, nKnown int, keys []string, det map[string]any) error {
	var inv inventoryFile
	readJSON(d.env.Inventory, &inv)
	var evals, nontriv, steps uint64
	truncated := false
	var phases []map[string]any
	for _, p := range d.phases {
		evals += p.Runs
		nontriv += p.Nontrivial
		steps += p.Steps
		if p.Truncated {
			truncated = true
		}
		phases = append(phases, map[string]any{"name": p.Spec.Name, "race_detector_build": p.Spec.Race, "systematic_sweep": p.Spec.Sweep, "runs": p.Runs, "nontrivial_runs": p.Nontrivial, "violating_runs": p.Violating, "sim_steps": p.Steps, "wall_s": round1(p.WallS), "note": p.Spec.Note, "truncated_by_wall_cap": p.Truncated})
	}
	faults := map[string]uint64{}
	probes := map[string]uint64{}
	other := map[string]uint64{}
	for _, k := range sortedKeys(d.stats) {
		switch {
		case strings.HasPrefix(k, "fault_"):
			faults[strings.TrimPrefix(k, "fault_")] = d.stats[k]
		default:
			other[k] = d.stats[k]
		}
	}
	var zero []string
	for _, pn := range d.c.ProbeNames() {
		probes[pn] = d.stats[pn]
		if d.stats[pn] == 0 {
			zero = append(zero, pn)
		}
	}
	samples := d.samples
	if len(samples) == 0 {
		samples = []any{"no run produced a description"}
	}
	distinct := uint64(len(d.sigs))
	rule := d.c.Rule()
	if d.sigMod > 1 {
		rule += "; distinct_nontrivial is a lower bound: only signatures whose hash is 0 modulo " + itoa(d.sigMod) + " are kept and counted"
	}
	cov := map[string]any{
		"evaluations":            evals,
		"distinct_nontrivial":    distinct,
		"nontrivial_runs":        nontriv,
		"rule":                   rule,
		"samples":                samples,
		"exhaustive":             false,
		"phases":                 phases,
		"sim_steps_total":        steps,
		"simulated_time_note":    "the code has no clock; simulated time is the logical step clock (instrumented points passed)",
		"runs_per_hour":          uint64(float64(evals) / (wall + 0.001) * 3600),
		"faults_fired":           faults,
		"probes":                 probes,
		"probes_stuck_at_zero":   zero,
		"counters":               other,
		"sites_hit":              len(d.siteHit),
		"sites_total":            len(inv.Sites),
		"instrumenter_rewrites":  inv.Rewrites,
		"package_level_vars":     inv.PkgVars,
		"instrumenter_warnings":  inv.Warnings,
		"unmodelled_sync_sites":  inv.Unmodelled,
		"go_statements_in_tree":  inv.GoStmts,
		"determinism_selftest":   det,
		"truncated":              truncated,
		"violation_keys":         keys,
		"known_findings_printed": nKnown,
		"infrastructure_errors":  d.infraErr,
		"components": map[string]any{
			"real":      []string{"lexer", "parser", "regex sub-parser", "bytecode generator", "semantic checker", "search VM", "process evaluator", "files.Reader/BufferedFile/Writer/MemoryStream", "path glob", "CLI main (C18)", "the OS file system (tmpfs scratch worlds)"},
			"simulated": []string{"which task runs at every instrumented point (token scheduler)", "source byte stream of ParseReader (C08)", "math/rand seed", "map iteration order", "file-system call history (logged pass-through wrappers)"},
			"stubs":     []string{},
			"not_run":   []string{"libvorejs (WASM, syscall/js)", "-profile", "-filenames rename mode"},
		},
	}
	ev := map[string]any{
		"property_id": d.prop,
		"tier":        d.env.Tier,
		"seed":        d.env.Seed,
		"level":       "exploration",
		"coverage":    cov,
		"assumptions": d.c.Assumptions(),
		"wall_s":      round1(wall),
		"violations":  nViol,
	}
	b, err := json.MarshalIndent(ev, "", " ")
	if err != nil {
		return err
	}
	tmp := path + ".tmp"
	if err := os.WriteFile(tmp, append(b, '\n'), 0644); err != nil {
		return err
	}
	return os.Rename(tmp, path)
}

func round1(f float64) float64 { return float64(int64(f*10+0.5)) / 10 }

func itoa(u uint64) string {
	b, _ := json.Marshal(u)
	return string(b)
}

var _ = sort.Strings
