package main

import (
	"bufio"
	"bytes"
	"encoding/binary"
	"encoding/json"
	"flag"
	"fmt"
	"os"
	"os/exec"
	"path/filepath"
	"regexp"
	"runtime"
	"sort"
	"strings"
	"sync"
	"time"
)

type KnownFinding struct {
	Status   string `json:"status"` // known | fixed
	Property string `json:"property"`
	Oracle   string `json:"oracle,omitempty"`
	Key      string `json:"key"`
	What     string `json:"what"`
	Witness  string `json:"witness,omitempty"`
	Commit   string `json:"commit,omitempty"`
}

func loadKnown(path string) []KnownFinding {
	f, err := os.Open(path)
	if err != nil {
		return nil
	}
	defer f.Close()
	var out []KnownFinding
	sc := bufio.NewScanner(f)
	sc.Buffer(make([]byte, 1<<20), 1<<20)
	for sc.Scan() {
		line := strings.TrimSpace(sc.Text())
		if line == "" || strings.HasPrefix(line, "#") {
			continue
		}
		var k KnownFinding
		if json.Unmarshal([]byte(line), &k) == nil {
			out = append(out, k)
		}
	}
	return out
}

type phaseAgg struct {
	Spec       PhaseSpec
	Runs       uint64
	Nontrivial uint64
	Steps      uint64
	WallS      float64
	Truncated  bool
	Violating  uint64
}

type found struct {
	phase PhaseSpec
	wv    WorkerViolation
}

type driver struct {
	env      *Env
	c        Check
	prop     string
	workers  int
	outDir   string
	infraErr []string
	stats    map[string]uint64
	sigs     map[uint64]struct{}
	sigMod   uint64
	siteHit  map[int]bool
	samples  []any
	phases   []*phaseAgg
	found    []found
	mu       sync.Mutex
}

func (d *driver) infra(format string, a ...any) {
	d.mu.Lock()
	d.infraErr = append(d.infraErr, fmt.Sprintf(format, a...))
	d.mu.Unlock()
}

func (d *driver) commonArgs() []string {
	e := d.env
	return []string{"-verif", e.VerifDir, "-repo", e.RepoDir, "-scratch", e.ScratchS, "-inventory", e.Inventory, "-cli", e.CLI, "-racebin", e.RaceBin, "-tier", e.Tier, "-seed", fmt.Sprint(e.Seed)}
}

var raceSecRe = regexp.MustCompile(`(?m)^(Previous )?([Rr]ead|[Ww]rite|Atomic [a-z]+) at 0x[0-9a-f]+ by (main )?goroutine`)

// parseRaceReport extracts the stable key of a Go race report: the unordered
// pair (access kind, innermost vore function) of the two stacks.
func parseRaceReport(stderr string) (key string, detail string, harnessOnly bool, ok bool) {
	i := strings.Index(stderr, "WARNING: DATA RACE")
	if i < 0 {
		return "", "", false, false
	}
	rep := stderr[i:]
	if j := strings.Index(rep[1:], "=================="); j >= 0 {
		rep = rep[:j+1]
	}
	locs := raceSecRe.FindAllStringSubmatchIndex(rep, -1)
	var parts []string
	for n, l := range locs {
		if n >= 2 {
			break
		}
		end := len(rep)
		if n+1 < len(locs) {
			end = locs[n+1][0]
		}
		sec := rep[l[0]:end]
		if k := strings.Index(sec, "\n\n"); k >= 0 {
			sec = sec[:k]
		}
		kind := strings.ToLower(rep[l[4]:l[5]])
		fn := ""
		for _, line := range strings.Split(sec, "\n") {
			line = strings.TrimSpace(line)
			if strings.Contains(line, "jmeaster30/vore") && strings.HasSuffix(line, ")") && !strings.HasPrefix(line, "/") {
				fn = line
				if p := strings.LastIndex(fn, "/"); p >= 0 {
					fn = fn[p+1:]
				}
				if p := strings.Index(fn, "("); p >= 0 && !strings.HasPrefix(fn, "(") {
					fn = fn[:p]
				}
				break
			}
		}
		if fn == "" {
			harnessOnly = true
			fn = "<no vore frame>"
		}
		parts = append(parts, kind+" "+fn)
	}
	sort.Strings(parts)
	if len(rep) > 3000 {
		rep = rep[:3000]
	}
	return "race:" + strings.Join(parts, " | "), rep, harnessOnly, len(parts) == 2
}

var fatalRe = regexp.MustCompile(`(?m)^(fatal error: .*|runtime: goroutine stack exceeds.*|panic: .*)$`)

func parseCrash(stderr string) (string, string) {
	m := fatalRe.FindString(stderr)
	if m == "" {
		m = "process died"
	}
	d := stderr
	if len(d) > 2000 {
		d = d[:2000]
	}
	return "crash:" + coarse(m), d
}

func readProgress(path string) (uint64, bool) {
	b, err := os.ReadFile(path)
	if err != nil || len(b) < 8 {
		return 0, false
	}
	return binary.LittleEndian.Uint64(b[:8]), true
}

// runChunk runs one worker over [from,to) and deals with its death.
func (d *driver) runChunk(spec PhaseSpec, wi int, from, to uint64, deadline time.Time, agg *phaseAgg) {
	bin := d.env.Self
	if spec.Race {
		bin = d.env.RaceBin
	}
	respawns := 0
	for from < to {
		out := filepath.Join(d.outDir, fmt.Sprintf("%s-w%d-%d.json", spec.Name, wi, from))
		prog := filepath.Join(d.outDir, fmt.Sprintf("%s-w%d.progress", spec.Name, wi))
		os.Remove(prog)
		world := worldDir(d.env.ScratchS, fmt.Sprintf("%s-w%d", spec.Name, wi))
		args := append([]string{"worker"}, d.commonArgs()...)
		args = append(args, "-prop", d.prop, "-phase", spec.Name, "-from", fmt.Sprint(from), "-to", fmt.Sprint(to), "-out", out, "-world", world, "-progress", prog, "-deadline", fmt.Sprint(deadline.Unix()), "-sigmod", fmt.Sprint(d.sigMod))
		if spec.Sweep {
			args = append(args, "-sweep")
		}
		if ms := os.Getenv("VORESIM_MAXSHRINK"); ms != "" {
			args = append(args, "-maxshrink", ms)
		}
		cmd := exec.Command(bin, args...)
		var stderr bytes.Buffer
		cmd.Stderr = &stderr
		cmd.Stdout = &stderr
		cmd.Env = append(os.Environ(), "GORACE=halt_on_error=1 history_size=5 exitcode=66", "GOMAXPROCS=1")
		if err := cmd.Start(); err != nil {
			d.infra("cannot start worker: %v", err)
			return
		}
		done := make(chan error, 1)
		go func() { done <- cmd.Wait() }()
		var err error
		select {
		case err = <-done:
		case <-time.After(time.Until(deadline) + 120*time.Second):
			cmd.Process.Kill()
			<-done
			idx, _ := readProgress(prog)
			d.infra("watchdog: worker %d of phase %s did not finish (in-flight run index %d); stderr: %s", wi, spec.Name, idx, trunc(stderr.String(), 500))
			return
		}
		if err == nil {
			var wo WorkerOut
			if e := readJSON(out, &wo); e != nil {
				d.infra("worker output unreadable: %v", e)
				return
			}
			d.merge(spec, agg, &wo)
			return
		}
		// the worker died: attribute to the in-flight run
		idx, okp := readProgress(prog)
		code := -1
		if ee, ok := err.(*exec.ExitError); ok {
			code = ee.ExitCode()
		}
		se := stderr.String()
		if !okp {
			d.infra("worker died before its first run (exit %d): %s", code, trunc(se, 1500))
			return
		}
		var v Violation
		if code == 66 {
			key, detail, harnessOnly, ok := parseRaceReport(se)
			if !ok {
				d.infra("unparseable race report (exit 66): %s", trunc(se, 1500))
				return
			}
			if harnessOnly {
				d.infra("race report without a vore frame in one stack (harness noise?): %s", trunc(detail, 2500))
				return
			}
			v = Violation{Oracle: "race-detector", Key: key, Detail: detail}
		} else if code == 2 && strings.Contains(se, "init:") {
			d.infra("worker init failed: %s", trunc(se, 1500))
			return
		} else {
			key, detail := parseCrash(se)
			v = Violation{Oracle: "process-crash", Key: key, Detail: fmt.Sprintf("worker exit %d: %s", code, detail)}
		}
		rs := runSeed(d.env.Seed, d.prop, spec.Name, idx)
		d.mu.Lock()
		agg.Violating++
		agg.Runs += idx - from + 1
		d.found = append(d.found, found{spec, WorkerViolation{ChunkFrom: from, Index: idx, RunSeed: rs, Violation: v, Tape: nil}})
		d.mu.Unlock()
		respawns++
		if respawns >= 3 {
			return
		}
		from = idx + 1
	}
}

func (d *driver) merge(spec PhaseSpec, agg *phaseAgg, wo *WorkerOut) {
	d.mu.Lock()
	defer d.mu.Unlock()
	agg.Runs += wo.Runs
	agg.Nontrivial += wo.Nontrivial
	agg.Steps += wo.Steps
	agg.Violating += wo.NViol
	if wo.Truncated {
		agg.Truncated = true
	}
	if wo.SimLimit != "" {
		d.infraErr = append(d.infraErr, fmt.Sprintf("the simulator ran out of a fixed resource in %d run(s) of phase %s (%s): no verdict on those runs", wo.Stats["simulator_limit_runs"], spec.Name, wo.SimLimit))
	}
	for k, v := range wo.Stats {
		d.stats[k] += v
	}
	for _, s := range wo.Sigs {
		d.sigs[s] = struct{}{}
	}
	for _, s := range wo.SiteHits {
		d.siteHit[s] = true
	}
	for _, s := range wo.Samples {
		if len(d.samples) < 3 {
			d.samples = append(d.samples, s)
		}
	}
	for _, v := range wo.Violations {
		d.found = append(d.found, found{spec, v})
	}
}

func (d *driver) runPhase(spec PhaseSpec, capS float64) *phaseAgg {
	agg := &phaseAgg{Spec: spec}
	total := spec.Runs
	if spec.Sweep && total == 0 {
		total = d.c.SweepCount(spec.Name)
	}
	if total == 0 {
		return agg
	}
	t0 := time.Now()
	deadline := t0.Add(time.Duration(capS * float64(time.Second)))
	w := d.workers
	if uint64(w) > total {
		w = int(total)
	}
	var wg sync.WaitGroup
	if spec.Cold {
		// one process per run, w at a time
		slots := make(chan int, w)
		for k := 0; k < w; k++ {
			slots <- k
		}
		for i := uint64(0); i < total; i++ {
			if time.Now().After(deadline) {
				agg.Truncated = true
				break
			}
			wg.Add(1)
			slot := <-slots
			go func(i uint64, slot int) {
				defer wg.Done()
				defer func() { slots <- slot }()
				d.runChunk(spec, slot, i, i+1, deadline, agg)
			}(i, slot)
		}
		wg.Wait()
		agg.WallS = time.Since(t0).Seconds()
		return agg
	}
	per := (total + uint64(w) - 1) / uint64(w)
	for wi := 0; wi < w; wi++ {
		from := uint64(wi) * per
		to := from + per
		if to > total {
			to = total
		}
		if from >= to {
			continue
		}
		wg.Add(1)
		go func(wi int, from, to uint64) {
			defer wg.Done()
			d.runChunk(spec, wi, from, to, deadline, agg)
		}(wi, from, to)
	}
	wg.Wait()
	agg.WallS = time.Since(t0).Seconds()
	return agg
}

// childReplay runs a replay file in a fresh process and returns (exit code, output).
func (d *driver) childReplay(file string, race bool, tag string) (int, string) {
	bin := d.env.Self
	if race {
		bin = d.env.RaceBin
	}
	world := worldDir(d.env.ScratchS, "replay-"+tag)
	args := append([]string{"replay"}, d.commonArgs()...)
	args = append(args, "-file", file, "-world", world)
	cmd := exec.Command(bin, args...)
	var buf bytes.Buffer
	cmd.Stdout = &buf
	cmd.Stderr = &buf
	cmd.Env = append(os.Environ(), "GORACE=halt_on_error=1 history_size=5 exitcode=66", "GOMAXPROCS=1")
	done := make(chan error, 1)
	if err := cmd.Start(); err != nil {
		return -1, err.Error()
	}
	go func() { done <- cmd.Wait() }()
	select {
	case err := <-done:
		if err == nil {
			return 0, buf.String()
		}
		if ee, ok := err.(*exec.ExitError); ok {
			return ee.ExitCode(), buf.String()
		}
		return -1, buf.String()
	case <-time.After(10 * time.Minute):
		cmd.Process.Kill()
		<-done
		return -2, "replay timed out\n" + buf.String()
	}
}

// childJudged says whether the violation is one that kills the process and is
// judged from the child's exit status and stderr.
func childJudged(v Violation) bool {
	return v.Oracle == "race-detector" || v.Oracle == "process-crash"
}

func (d *driver) childShows(file string, race bool, v Violation, tag string) (bool, string) {
	code, out := d.childReplay(file, race, tag)
	if v.Oracle == "race-detector" {
		if code != 66 {
			return false, out
		}
		key, _, _, ok := parseRaceReport(out)
		return ok && key == v.Key, out
	}
	if code == 0 || code == 1 {
		return false, out
	}
	key, _ := parseCrash(out)
	return key == v.Key, out
}

// confirm writes the replay file, shrinks child-judged violations, re-executes
// it in a fresh process and reports whether it reproduced.
func (d *driver) confirm(f found, replayDir string) (string, bool, string) {
	rf := ReplayFile{Property: d.prop, Phase: f.phase.Name, Race: f.phase.Race, Sweep: f.phase.Sweep, VerifSeed: d.env.Seed, Index: f.wv.Index, RunSeed: f.wv.RunSeed, Tape: f.wv.Tape, TapeFull: f.wv.TapeFull, Shrunk: f.wv.Shrunk, Violation: f.wv.Violation, Desc: f.wv.Desc}
	if f.wv.EventHash != 0 {
		rf.EventHash = fmt.Sprintf("%016x", f.wv.EventHash)
	}
	os.MkdirAll(replayDir, 0755)
	path := filepath.Join(replayDir, fmt.Sprintf("%s-%d.json", d.prop, f.wv.RunSeed))
	tag := fmt.Sprint(f.wv.RunSeed)
	if childJudged(f.wv.Violation) {
		// the tape is not known to the driver: regenerate it from the run seed
		gen := filepath.Join(d.outDir, "gen-"+tag+".json")
		args := append([]string{"gentape"}, d.commonArgs()...)
		args = append(args, "-prop", d.prop, "-phase", f.phase.Name, "-index", fmt.Sprint(f.wv.Index), "-out", gen)
		if f.phase.Sweep {
			args = append(args, "-sweep")
		}
		var g struct {
			Tape []uint64 `json:"tape"`
			Desc any      `json:"desc"`
		}
		if out, err := exec.Command(d.env.Self, args...).CombinedOutput(); err != nil || readJSON(gen, &g) != nil {
			// the run kills the plain binary too: replay by run seed, unshrunk
			_ = out
			rf.Tape = nil
			rf.Note = "seed-mode replay: the tape is regenerated from run_seed (the run crashes the process before its tape can be saved)"
			writeJSON(path, rf)
			ok, o := d.childShows(path, f.phase.Race, f.wv.Violation, tag)
			return path, ok, o
		}
		rf.Tape, rf.TapeFull, rf.Desc = g.Tape, len(g.Tape), g.Desc
		tmp := filepath.Join(d.outDir, "cand-"+tag+".json")
		test := func(c []uint64) bool {
			cand := rf
			cand.Tape = c
			writeJSON(tmp, cand)
			ok, _ := d.childShows(tmp, f.phase.Race, f.wv.Violation, tag)
			return ok
		}
		if test(rf.Tape) {
			shr, execs := shrinkTape(rf.Tape, 60, test)
			rf.Tape, rf.Shrunk = shr, execs
			// description of the shrunk run (plain binary, no oracle needed)
			cand := rf
			writeJSON(tmp, cand)
			args := append([]string{"describe"}, d.commonArgs()...)
			args = append(args, "-file", tmp, "-out", gen)
			if out, err := exec.Command(d.env.Self, args...).CombinedOutput(); err == nil {
				var g2 struct {
					Desc any `json:"desc"`
				}
				if readJSON(gen, &g2) == nil {
					rf.Desc = g2.Desc
				}
			} else {
				_ = out
			}
		}
		rf.Note = "judged from the fresh process' exit status and report (the violation kills the process)"
		writeJSON(path, rf)
		ok, out := d.childShows(path, f.phase.Race, f.wv.Violation, tag)
		if ok {
			return path, ok, out
		}
		// not shown by the run alone: state left by the earlier runs of the
		// dead worker may be needed (a free list, a cache). Replay its history.
		hist := rf
		hist.Tape, hist.TapeFull, hist.Shrunk, hist.EventHash = nil, 0, 0, ""
		return d.confirmHistory(path, hist, f, tag, out, func(file string) (bool, string) {
			return d.childShows(file, f.phase.Race, f.wv.Violation, tag)
		}, false)
	}
	writeJSON(path, rf)
	code, out := d.childReplay(path, f.phase.Race, tag)
	if code == 0 {
		return path, true, out
	}
	// The single run does not show it in a fresh process. It may depend on
	// state left behind by the earlier runs of its worker process (exactly
	// what C13 is about): replay the worker's history up to the run, then
	// minimise the history by delta debugging over fresh child processes.
	hist := rf
	hist.Tape, hist.TapeFull, hist.Shrunk, hist.EventHash = nil, 0, 0, ""
	return d.confirmHistory(path, hist, f, tag, out, func(file string) (bool, string) {
		c, o := d.childReplay(file, f.phase.Race, tag)
		return c == 0, o
	}, true)
}

// confirmHistory replays the violating run after the runs that preceded it in
// its worker process, minimises that history by delta debugging over fresh
// child processes and writes the result to path. shows judges one replay file.
func (d *driver) confirmHistory(path string, hist ReplayFile, f found, tag, out string, shows func(string) (bool, string), pinHash bool) (string, bool, string) {
	var pre []uint64
	for i := f.wv.ChunkFrom; i < f.wv.Index; i++ {
		pre = append(pre, i)
	}
	if len(pre) == 0 {
		return path, false, out
	}
	join := func(l []uint64) string {
		var sb strings.Builder
		for _, x := range l {
			fmt.Fprintf(&sb, "%d ", x)
		}
		return strings.TrimSpace(sb.String())
	}
	tmp := filepath.Join(d.outDir, "hist-"+tag+".json")
	test := func(l []uint64) (bool, string) {
		h := hist
		h.Prelude = join(l)
		writeJSON(tmp, h)
		return shows(tmp)
	}
	ok, o2 := test(pre)
	if !ok {
		return path, false, out + "\n(history replay of runs " + fmt.Sprint(f.wv.ChunkFrom) + ".." + fmt.Sprint(f.wv.Index) + " did not reproduce it either)\n" + o2
	}
	// ddmin, budgeted
	execs := 0
	n := 2
	for len(pre) >= 2 && execs < 40 {
		chunk := (len(pre) + n - 1) / n
		reduced := false
		for i := 0; i < len(pre) && execs < 40; i += chunk {
			end := i + chunk
			if end > len(pre) {
				end = len(pre)
			}
			cand := append(append([]uint64{}, pre[:i]...), pre[end:]...)
			execs++
			if ok, _ := test(cand); ok {
				pre = cand
				if n > 2 {
					n--
				}
				reduced = true
				break
			}
		}
		if !reduced {
			if n >= len(pre) {
				break
			}
			n *= 2
			if n > len(pre) {
				n = len(pre)
			}
		}
	}
	hist.Prelude = join(pre)
	hist.Shrunk = execs
	hist.Note = fmt.Sprintf("history-dependent: the run only fails after the listed earlier runs of the same process (%d of the %d that preceded it in its worker were needed after delta debugging); all runs are regenerated from their seeds", len(pre), f.wv.Index-f.wv.ChunkFrom)
	writeJSON(path, hist)
	ok1, o1 := shows(path)
	if !ok1 {
		return path, false, o1
	}
	if !pinHash {
		return path, true, o1
	}
	if m := regexp.MustCompile(`event_hash=([0-9a-f]{16})`).FindStringSubmatch(o1); m != nil {
		hist.EventHash = m[1]
		writeJSON(path, hist)
		ok2, o2 := shows(path)
		return path, ok2, o2
	}
	return path, true, o1
}

func checkMain(args []string) int {
	fs := flag.NewFlagSet("check", flag.ExitOnError)
	env := envFromFlags(fs)
	prop := fs.String("prop", "", "")
	evidence := fs.String("evidence", "", "")
	replays := fs.String("replays", "", "")
	known := fs.String("known", "", "")
	workers := fs.Int("workers", 0, "")
	capS := fs.Float64("cap", 0, "wall-clock safety cap per phase (s)")
	fs.Parse(args)
	c := checks[*prop]
	if c == nil {
		fmt.Fprintln(os.Stderr, "unknown property", *prop)
		return 2
	}
	t0 := time.Now()
	if err := c.Init(env); err != nil {
		fmt.Fprintln(os.Stderr, "init:", err)
		return 2
	}
	if *workers <= 0 {
		*workers = runtime.NumCPU()
		if *workers > 16 {
			*workers = 16
		}
	}
	if *capS == 0 {
		*capS = 600
		if env.Tier == "thorough" {
			*capS = 3600
		}
	}
	d := &driver{env: env, c: c, prop: *prop, workers: *workers, stats: map[string]uint64{}, sigs: map[uint64]struct{}{}, siteHit: map[int]bool{}, sigMod: 1}
	if env.Tier == "thorough" {
		d.sigMod = 16
	}
	d.outDir = filepath.Join(env.ScratchS, "out")
	os.MkdirAll(d.outDir, 0755)
	fmt.Printf("voresim check property=%s tier=%s VERIF_SEED=%d workers=%d\n", *prop, env.Tier, env.Seed, *workers)

	det := d.determinismSelfTest()

	for _, spec := range c.Phases(env.Tier) {
		if only := os.Getenv("VORESIM_PHASES"); only != "" && !strings.Contains(","+only+",", ","+spec.Name+",") {
			continue // developer switch: run some phases only
		}
		if spec.Race && env.RaceBin == "" {
			d.infra("phase %s needs the race binary", spec.Name)
			continue
		}
		agg := d.runPhase(spec, *capS)
		d.phases = append(d.phases, agg)
		fmt.Printf("  phase %-10s runs=%d nontrivial=%d violating_runs=%d steps=%d wall=%.1fs%s\n", spec.Name, agg.Runs, agg.Nontrivial, agg.Violating, agg.Steps, agg.WallS, map[bool]string{true: " TRUNCATED", false: ""}[agg.Truncated])
	}

	// violations: dedupe by key, confirm by fresh-process replay
	kf := loadKnown(*known)
	byKey := map[string]found{}
	var keys []string
	for _, f := range d.found {
		k := f.wv.Violation.Key
		if old, ok := byKey[k]; !ok || (len(f.wv.Tape) > 0 && len(f.wv.Tape) < len(old.wv.Tape)) {
			if !ok {
				keys = append(keys, k)
			}
			byKey[k] = f
		}
	}
	sort.Strings(keys)
	nViol, nKnown := 0, 0
	var lines []string
	for i, k := range keys {
		if i >= maxReported() {
			lines = append(lines, fmt.Sprintf("... and %d more distinct violation keys", len(keys)-i))
			break
		}
		f := byKey[k]
		isKnown := false
		var kk KnownFinding
		for _, e := range kf {
			if e.Status == "known" && e.Property == *prop && e.Key == k {
				isKnown, kk = true, e
			}
		}
		path, ok, out := d.confirm(f, *replays)
		if !ok {
			d.infra("violation %q found in phase %s run %d did not reproduce from its replay file %s (simulator nondeterminism?):\n%s", k, f.phase.Name, f.wv.Index, path, trunc(out, 1500))
			continue
		}
		if isKnown {
			nKnown++
			lines = append(lines, fmt.Sprintf("KNOWN-FINDING: property=%s %s (%s) replay=%s", *prop, k, kk.What, path))
		} else {
			nViol++
			lines = append(lines, fmt.Sprintf("VIOLATION property=%s replay=%s", *prop, path))
			lines = append(lines, fmt.Sprintf("  oracle=%s key=%s", f.wv.Violation.Oracle, k))
			lines = append(lines, "  "+strings.ReplaceAll(trunc(f.wv.Violation.Detail, 1200), "\n", "\n  "))
		}
	}
	for _, l := range lines {
		fmt.Println(l)
	}

	wall := time.Since(t0).Seconds()
	if err := d.writeEvidence(*evidence, wall, nViol, nKnown, keys, det); err != nil {
		d.infra("cannot write evidence: %v", err)
	}
	if len(d.infraErr) > 0 {
		for _, e := range d.infraErr {
			fmt.Println("INFRASTRUCTURE:", e)
		}
		if nViol > 0 {
			return 1
		}
		return 2
	}
	if nViol > 0 {
		return 1
	}
	fmt.Printf("OK property=%s tier=%s: no violation in %d simulated runs (%.1fs)\n", *prop, env.Tier, d.totalRuns(), wall)
	return 0
}

// worldDir names a private world directory. Every world path has the same
// length, so that results which embed absolute paths (JSON documents written
// over stale files, for instance) do not depend on who ran the run.
func worldDir(scratch, tag string) string {
	return filepath.Join(scratch, "worlds", fmt.Sprintf("%08x", uint32(hashStr(tag))))
}

func maxReported() int {
	if os.Getenv("VORESIM_MAXSHRINK") != "" {
		return 200
	}
	return 12
}

func (d *driver) totalRuns() uint64 {
	var n uint64
	for _, p := range d.phases {
		n += p.Runs
	}
	return n
}

// determinismSelfTest runs the first runs of every non-sweep phase twice in
// fresh processes and compares the per-run event hashes.
func (d *driver) determinismSelfTest() map[string]any {
	res := map[string]any{}
	n := uint64(48)
	if d.env.Tier == "thorough" {
		n = 256
	}
	for _, spec := range d.c.Phases(d.env.Tier) {
		if spec.Sweep || spec.Runs == 0 {
			continue
		}
		if spec.Race && d.env.RaceBin == "" {
			continue
		}
		m := n
		if spec.Race {
			m = n / 4
		}
		if m > spec.Runs {
			m = spec.Runs
		}
		bin := d.env.Self
		if spec.Race {
			bin = d.env.RaceBin
		}
		var logs [2]string
		var wg sync.WaitGroup
		for r := 0; r < 2; r++ {
			wg.Add(1)
			go func(r int) {
				defer wg.Done()
				hl := filepath.Join(d.outDir, fmt.Sprintf("det-%s-%d.log", spec.Name, r))
				world := worldDir(d.env.ScratchS, fmt.Sprintf("det-%s-%d", spec.Name, r))
				args := append([]string{"hashlog"}, d.commonArgs()...)
				args = append(args, "-prop", d.prop, "-phase", spec.Name, "-n", fmt.Sprint(m), "-out", hl, "-world", world)
				cmd := exec.Command(bin, args...)
				cmd.Env = append(os.Environ(), "GORACE=halt_on_error=0 history_size=5 exitcode=0", fmt.Sprintf("GOMAXPROCS=%d", []int{1, 4}[r]))
				out, err := cmd.CombinedOutput()
				if err != nil && !bytes.Contains(out, []byte("DATA RACE")) {
					logs[r] = "ERR " + err.Error() + " " + trunc(string(out), 300)
					return
				}
				b, _ := os.ReadFile(hl)
				logs[r] = string(b)
			}(r)
		}
		wg.Wait()
		// a run that was discarded by the heap safety limit (all-zero hash) in one process may
		// have gone through in the other: when that limit strikes depends on the garbage collector
		if !strings.HasPrefix(logs[0], "ERR") && !strings.HasPrefix(logs[1], "ERR") {
			a, b := strings.Split(logs[0], "\n"), strings.Split(logs[1], "\n")
			if len(a) == len(b) {
				for i := range a {
					if strings.Contains(a[i], " 0000000000000000 ") || strings.Contains(b[i], " 0000000000000000 ") {
						a[i], b[i] = "discarded", "discarded"
					}
				}
				logs[0], logs[1] = strings.Join(a, "\n"), strings.Join(b, "\n")
			}
		}
		same := logs[0] == logs[1] && logs[0] != "" && !strings.HasPrefix(logs[0], "ERR")
		res[spec.Name] = map[string]any{"runs_compared": m, "identical_event_hashes": same}
		if !same {
			a, b := strings.Split(logs[0], "\n"), strings.Split(logs[1], "\n")
			first := "(one log is shorter)"
			for i := 0; i < len(a) && i < len(b); i++ {
				if a[i] != b[i] {
					first = fmt.Sprintf("first difference: %q vs %q", a[i], b[i])
					break
				}
			}
			d.infra("determinism self-test failed for phase %s: two fresh processes disagree on the event hashes of the same %d runs; %s (%s | %s)", spec.Name, m, first, trunc(logs[0], 120), trunc(logs[1], 120))
		}
	}
	return res
}

func hashlogMain(args []string) int {
	fs := flag.NewFlagSet("hashlog", flag.ExitOnError)
	env := envFromFlags(fs)
	prop := fs.String("prop", "", "")
	phase := fs.String("phase", "", "")
	n := fs.Uint64("n", 0, "")
	out := fs.String("out", "", "")
	world := fs.String("world", "", "")
	fs.Parse(args)
	c := checks[*prop]
	simProcessSetup()
	if err := c.Init(env); err != nil {
		fmt.Fprintln(os.Stderr, "init:", err)
		return 2
	}
	os.MkdirAll(*world, 0755)
	var sb strings.Builder
	stats := map[string]uint64{}
	for i := uint64(0); i < *n; i++ {
		rs := runSeed(env.Seed, *prop, *phase, i)
		res := executeRun(c, *phase, i, NewTape(rs, nil), *world, stats, false)
		steps := res.Steps
		if *prop == "C20" || *prop == "C18" {
			steps = 0 // absolute patterns walk real directories outside the world (/, /dev, /dev/shm): step counts depend on them
		}
		fmt.Fprintf(&sb, "%d %016x %d %d\n", i, res.EventHash, steps, len(res.Violations))
	}
	os.WriteFile(*out, []byte(sb.String()), 0644)
	return 0
}

// gentapeMain regenerates the tape of run <index> without executing it under
// an oracle that may kill the process: it runs the plain binary.
func gentapeMain(args []string) int {
	fs := flag.NewFlagSet("gentape", flag.ExitOnError)
	env := envFromFlags(fs)
	prop := fs.String("prop", "", "")
	phase := fs.String("phase", "", "")
	index := fs.Uint64("index", 0, "")
	sweep := fs.Bool("sweep", false, "")
	out := fs.String("out", "", "")
	fs.Parse(args)
	c := checks[*prop]
	simProcessSetup()
	if err := c.Init(env); err != nil {
		fmt.Fprintln(os.Stderr, "init:", err)
		return 2
	}
	rs := runSeed(env.Seed, *prop, *phase, *index)
	var prefix []uint64
	if *sweep {
		prefix = c.SweepPrefix(*phase, *index)
	}
	t := NewTape(rs, prefix)
	world := worldDir(env.ScratchS, "gentape")
	os.MkdirAll(world, 0755)
	res := executeRun(c, *phase, *index, t, world, map[string]uint64{}, true)
	return b2i(writeJSON(*out, map[string]any{"tape": t.Rec, "desc": res.Desc}) != nil)
}

func describeMain(args []string) int {
	fs := flag.NewFlagSet("describe", flag.ExitOnError)
	env := envFromFlags(fs)
	file := fs.String("file", "", "")
	out := fs.String("out", "", "")
	fs.Parse(args)
	var rf ReplayFile
	if err := readJSON(*file, &rf); err != nil {
		return 2
	}
	c := checks[rf.Property]
	simProcessSetup()
	env.Seed = rf.VerifSeed
	if err := c.Init(env); err != nil {
		return 2
	}
	world := worldDir(env.ScratchS, "describe")
	os.MkdirAll(world, 0755)
	res := executeRun(c, rf.Phase, rf.Index, ReplayTape(rf.Tape), world, map[string]uint64{}, true)
	return b2i(writeJSON(*out, map[string]any{"desc": res.Desc}) != nil)
}

func b2i(b bool) int {
	if b {
		return 2
	}
	return 0
}
