package main

// C13 — Definitions are transparent; commands, runs and compilations are
// independent.
//
// Phase "hist": API-call histories over hidden state. One task performs 2–12
// ops (compile a source, run a compiled handle on a text, re-compile, run an
// older handle again ...), many histories per process so the real history is
// hundreds of calls long; math/rand is re-seeded differently before every
// compile and the map-order seed varies. Oracle: every (source, text) outcome
// equals the outcome of the same call made as the first and only call of a
// fresh process (computed twice with different rand/map seeds).
//
// Phase "sess": compiler sessions against a reference model. A session is a
// generated list of `set n to pattern B` definitions (capture-free bodies) and
// find/replace commands that reference them. The model is a definition store
// plus three executable readings of each command compiled alone: with the
// definitions it needs; with each reference textually replaced by (B); with
// the first reference as inline subroutine {B} = n and the rest as calls.
// Checks: result(whole source) == concatenation of result(command alone), and
// the readings agree match for match.

import (
	"bytes"
	"fmt"
	"math/rand"
	"os"
	"os/exec"
	"path/filepath"
	"sort"
	"strings"
	"sync"

	"github.com/jmeaster30/vore/libvore"
	"github.com/jmeaster30/vore/libvore/engine"
	"verif/simrt"
)

type c13ref struct {
	Compile Outcome   `json:"compile"`
	Runs    []Outcome `json:"runs"` // per text variant
	Steps   uint64    `json:"steps"`
	Stable  bool      `json:"stable"`
	Other   string    `json:"other,omitempty"`
}

type c13 struct {
	env  *Env
	pool []Item
	refs []c13ref
}

func init() { register(&c13{}) }

func (c *c13) ID() string { return "C13" }

func (c *c13) Phases(tier string) []PhaseSpec {
	if tier == "thorough" {
		return []PhaseSpec{
			{Name: "hist", Runs: 600000, Note: "API-call histories vs fresh-process references"},
			{Name: "sess", Runs: 400000, Note: "compiler sessions vs definition-store readings"},
		}
	}
	return []PhaseSpec{
		{Name: "hist", Runs: 6000, Note: "API-call histories vs fresh-process references"},
		{Name: "sess", Runs: 30000, Note: "compiler sessions vs definition-store readings"},
	}
}

func (c *c13) Rule() string {
	return "hist: one run = a history of 2-12 Compile/Run calls over 1-3 corpus sources x 3 text variants in one long-lived process, rand and map-order seeds varied per call; non-trivial = some (source,text) pair is evaluated at least twice with another Compile in between. sess: one run = a generated session of 1-3 `set .. to pattern` definitions (capture-free bodies, possibly nested references) and 1-3 commands referencing them 1-3 times as prefix/suffix/inside loops and alternations, on a generated text; non-trivial = a definition is referenced at least twice or from at least two commands. distinct = distinct op-sequence (hist) or (source, text) (sess) hashes among the non-trivial runs"
}

func (c *c13) Assumptions() []string {
	return []string{
		"the reference of a call is the same instrumented code run as the first and only call of a fresh process",
		"session readings are only compared when all of them finish inside the step budget; a budget abort discards the run (termination is C10, not claimed)",
		"the inline-subroutine reading is only generated where the first reference is not under a quantifier (a loop body is emitted more than once, which vore documents as a name clash)",
	}
}

func (c *c13) ProbeNames() []string {
	return []string{"hist_pair_repeated_after_other_compile", "hist_recompiled_same_source", "hist_old_handle_run_after_recompile", "sess_def_referenced_from_two_commands", "sess_def_referenced_twice_in_command", "sess_nested_definition", "sess_subroutine_reading_compared", "sess_or_in_body_referenced_twice", "sess_reference_inside_loop_min2", "sess_runfiles_concatenation_compared", "sess_name_redefined", "sess_wide_many_commands_64k_text"}
}

func (c *c13) SweepPrefix(string, uint64) []uint64 { return nil }
func (c *c13) SweepCount(string) uint64            { return 0 }

func textVariants(text string) []string {
	half := text[:len(text)/2]
	return []string{text, half, text + " " + text}
}

// solorefMain: `voresim soloref -item i -rseed r -mseed m`: computes the
// reference of one pool item in this fresh process and prints it as JSON.
func (c *c13) soloref(item int, rseed int64, mseed uint64) c13ref {
	it := c.pool[item]
	var r c13ref
	simrt.Reset(1, nil, mseed)
	simrt.Solo()
	rand.Seed(rseed)
	simrt.OpStart(20000000)
	v, oc := doCompile(it.Src)
	r.Compile = oc
	if v != nil {
		for _, tx := range textVariants(it.Text) {
			r.Runs = append(r.Runs, doRun(v, tx))
		}
	}
	simrt.OpEnd()
	r.Steps = simrt.Steps
	simrt.Stop()
	return r
}

func refAborted(r c13ref) bool {
	if r.Compile.Class == "abort" {
		return true
	}
	for _, o := range r.Runs {
		if o.Class == "abort" {
			return true
		}
	}
	return false
}

func sameRef(a, b c13ref) bool {
	if !a.Compile.Same(b.Compile) || len(a.Runs) != len(b.Runs) {
		return false
	}
	for i := range a.Runs {
		if !a.Runs[i].Same(b.Runs[i]) {
			return false
		}
	}
	return true
}

func (c *c13) loadPool(env *Env) error {
	corp, err := loadCorpus(env.VerifDir)
	if err != nil {
		return err
	}
	c.pool = nil
	for _, it := range corp.Items {
		if len(it.Text) > 400 {
			it.Text = it.Text[:400]
		}
		c.pool = append(c.pool, it)
	}
	return nil
}

func (c *c13) Init(env *Env) error {
	c.env = env
	if err := c.loadPool(env); err != nil {
		return err
	}
	path := filepath.Join(env.ScratchS, "out", "c13refs.json")
	if readJSON(path, &c.refs) == nil && len(c.refs) == len(c.pool) {
		return nil
	}
	// compute in fresh child processes, two per item
	c.refs = make([]c13ref, len(c.pool))
	var wg sync.WaitGroup
	sem := make(chan struct{}, 16)
	var mu sync.Mutex
	var firstErr error
	for i := range c.pool {
		wg.Add(1)
		go func(i int) {
			defer wg.Done()
			sem <- struct{}{}
			defer func() { <-sem }()
			var two [2]c13ref
			for k := 0; k < 2; k++ {
				cmd := exec.Command(env.Self, "soloref", "-verif", env.VerifDir, "-item", fmt.Sprint(i), "-rseed", fmt.Sprint(1000+k*7919+i), "-mseed", fmt.Sprint(k*104729+1))
				cmd.Env = append(os.Environ(), "GOMAXPROCS=1")
				var out, errb bytes.Buffer
				cmd.Stdout = &out
				cmd.Stderr = &errb
				err := cmd.Run()
				tmp := filepath.Join(env.ScratchS, "out", fmt.Sprintf("ref-%d-%d.json", i, k))
				if err == nil {
					os.WriteFile(tmp, out.Bytes(), 0644)
					err = readJSON(tmp, &two[k])
					os.Remove(tmp)
				}
				if err != nil {
					// the fresh process itself died (stack overflow, fatal error): that is its outcome
					key, _ := parseCrash(errb.String())
					two[k] = c13ref{Compile: Outcome{Class: "panic", Detail: "process died: " + key}}
				}
			}
			r := two[0]
			r.Stable = sameRef(two[0], two[1])
			if !r.Stable {
				r.Other = two[1].Compile.String()
				for j := range two[1].Runs {
					if j < len(two[0].Runs) && !two[0].Runs[j].Same(two[1].Runs[j]) {
						r.Other = trunc(two[0].Runs[j].String(), 200) + "  VS  " + trunc(two[1].Runs[j].String(), 200)
					}
				}
			}
			mu.Lock()
			c.refs[i] = r
			mu.Unlock()
		}(i)
	}
	wg.Wait()
	if firstErr != nil {
		return firstErr
	}
	os.MkdirAll(filepath.Dir(path), 0755)
	tmp := fmt.Sprintf("%s.%d", path, os.Getpid())
	if err := writeJSON(tmp, c.refs); err != nil {
		return err
	}
	return os.Rename(tmp, path)
}

type c13hop struct {
	Op     string `json:"op"` // compile | run
	Src    int    `json:"source_slot"`
	Item   int    `json:"item"`
	Handle int    `json:"handle,omitempty"`
	Var    int    `json:"text_variant,omitempty"`
	Out    string `json:"outcome,omitempty"`
}

type c13histDesc struct {
	Sources []string `json:"sources"`
	Ops     []c13hop `json:"ops"`
}

func (c *c13) Run(ctx *RunCtx) *RunResult {
	if ctx.Phase == "sess" {
		return c.runSession(ctx)
	}
	return c.runHistory(ctx)
}

func (c *c13) runHistory(ctx *RunCtx) *RunResult {
	t := ctx.T
	res := &RunResult{}
	addV := func(oracle, key, detail string) {
		if !hasKey(res.Violations, key) {
			res.Violations = append(res.Violations, Violation{oracle, key, detail})
		}
	}
	nsrc := t.Range(1, 3)
	items := make([]int, nsrc)
	d := &c13histDesc{}
	var budget uint64 = 100000
	for i := range items {
		items[i] = t.Draw(len(c.pool))
		if c.refs[items[i]].Steps > 300000 && t.Draw(20) != 1 {
			items[i] = t.Draw(30) // an ordinary item instead of a very expensive one
		}
		d.Sources = append(d.Sources, trunc(c.pool[items[i]].Src, 120))
		budget += 200 * c.refs[items[i]].Steps
		if refAborted(c.refs[items[i]]) {
			continue // the reference itself ran out of budget: no oracle for this item
		}
		if !c.refs[items[i]].Stable {
			addV("solo-stability", "solo-unstable", fmt.Sprintf("the same call gives different results in two fresh processes that differ only in the rand/map-order seed: src=%q: %s", trunc(c.pool[items[i]].Src, 100), c.refs[items[i]].Other))
		}
	}
	nops := t.Range(2, 12)
	mapSeed := uint64(t.Draw(1 << 30))
	type handle struct {
		v    *libvore.Vore
		slot int
		oc   Outcome
	}
	var handles []handle
	simrt.Reset(1, soloPlan(t, treeSpawnsCached(c.env), 20000), mapSeed)
	simrt.Solo()
	evh := uint64(7)
	type pairKey struct{ item, variant int }
	lastEval := map[pairKey]int{} // compile count at last evaluation
	compiles := 0
	compiledSlots := map[int]int{}
	var opsig []uint64
	for k := 0; k < nops; k++ {
		doComp := len(handles) == 0 || t.Draw(3) == 0
		if doComp {
			slot := t.Draw(nsrc)
			item := items[slot]
			rand.Seed(int64(t.Draw(1 << 30)))
			simrt.OpStart(budget)
			v, oc := doCompile(c.pool[item].Src)
			simrt.OpEnd()
			compiles++
			if compiledSlots[slot] > 0 {
				ctx.Count("hist_recompiled_same_source", 1)
			}
			compiledSlots[slot]++
			handles = append(handles, handle{v, slot, oc})
			d.Ops = append(d.Ops, c13hop{Op: "compile", Src: slot, Item: item, Out: trunc(oc.String(), 80)})
			evh = mix(evh, hashStr(oc.String()))
			opsig = append(opsig, mix(1, uint64(item)))
			want := c.refs[item].Compile
			if !c.refs[item].Stable || refAborted(c.refs[item]) {
				continue
			}
			if !oc.Same(want) {
				addV("fresh-process-equality", "hist-compile-mismatch:"+oc.Class+":"+coarse(oc.Detail), fmt.Sprintf("op %d: Compile(%q) after %d earlier calls gives %q; as first call of a fresh process it gives %q", k, trunc(c.pool[item].Src, 100), k, trunc(oc.String(), 200), trunc(want.String(), 200)))
			}
			continue
		}
		hi := t.Draw(len(handles))
		// bias to older handles: draw 0 = the oldest
		h := handles[hi]
		item := items[h.slot]
		variant := t.Draw(3)
		if h.v == nil {
			d.Ops = append(d.Ops, c13hop{Op: "run", Src: h.slot, Item: item, Handle: hi, Var: variant, Out: "(handle did not compile)"})
			continue
		}
		if hi < len(handles)-1 && compiledSlots[h.slot] > 1 {
			ctx.Count("hist_old_handle_run_after_recompile", 1)
		}
		text := textVariants(c.pool[item].Text)[variant]
		simrt.OpStart(budget)
		o := doRun(h.v, text)
		simrt.OpEnd()
		pk := pairKey{item, variant}
		if last, ok := lastEval[pk]; ok && last < compiles {
			res.Nontrivial = true
			ctx.Count("hist_pair_repeated_after_other_compile", 1)
		}
		lastEval[pk] = compiles
		d.Ops = append(d.Ops, c13hop{Op: "run", Src: h.slot, Item: item, Handle: hi, Var: variant, Out: trunc(o.String(), 80)})
		evh = mix(evh, hashStr(o.String()))
		opsig = append(opsig, mix(2, uint64(item), uint64(variant), uint64(hi)))
		if !c.refs[item].Stable || refAborted(c.refs[item]) || variant >= len(c.refs[item].Runs) {
			continue
		}
		want := c.refs[item].Runs[variant]
		if o.Class == "abort" {
			addV("liveness", "abort:"+o.Detail, fmt.Sprintf("op %d: Run exceeded its budget (%s)", k, o.Detail))
			continue
		}
		if !o.Same(want) {
			addV("fresh-process-equality", "hist-run-mismatch:"+o.Class+":"+coarse(o.Detail), fmt.Sprintf("op %d: Run of %q on %q (handle %d, after %d earlier calls) gives %q; in a fresh process it gives %q", k, trunc(c.pool[item].Src, 100), trunc(text, 40), hi, k, trunc(o.String(), 200), trunc(want.String(), 200)))
		}
	}
	res.Steps = simrt.Steps
	simrt.Stop()
	res.EventHash = evh
	res.Sig = mix(opsig...)
	res.Desc = d
	return res
}

// ---------------- sessions ----------------

type sessDef struct {
	Name     string
	Body     string   // body text with references to earlier definitions by name
	Refs     []string // names referenced directly
	Expanded string   // body with every reference written out, as bound when this definition was made
}

var sessLits = []string{"'a'", "'b'", "'ab'", "'c'", "'ba'", "'1'", "' '"}
var sessClasses = []string{"digit", "letter", "lower", "any", "whitespace"}

// genBody generates a capture-free pattern body (always parenthesised when compound).
func genBody(t *Tape, depth int, defs []sessDef, used map[string]bool, hasOr *bool) string {
	max := 7
	if depth <= 0 {
		max = 3
	}
	k := t.Draw(max)
	if len(defs) > 0 && depth < 3 && t.Draw(4) == 1 {
		d := defs[t.Draw(len(defs))]
		used[d.Name] = true
		return d.Name
	}
	switch k {
	case 0:
		return sessLits[t.Draw(len(sessLits))]
	case 1:
		return sessClasses[t.Draw(len(sessClasses))]
	case 2:
		*hasOr = true
		if t.Draw(2) == 0 {
			return "(in 'a', 'b')"
		}
		return "(in 'a' to 'c', '1')"
	case 3:
		*hasOr = true
		return "((" + genBody(t, depth-1, defs, used, hasOr) + ") or (" + genBody(t, depth-1, defs, used, hasOr) + "))"
	case 4:
		return "(" + genBody(t, depth-1, defs, used, hasOr) + " " + genBody(t, depth-1, defs, used, hasOr) + ")"
	case 5:
		qi := t.Draw(6)
		q := []string{"at least 1", "maybe", "between 1 and 3", "at most 2", "exactly 2", "at least 0"}[qi]
		s := "(" + q + " (" + genBody(t, depth-1, defs, used, hasOr) + ")"
		// `maybe` and `exactly` take no `fewest` in vore's grammar
		if t.Draw(3) == 1 && qi != 1 && qi != 4 {
			s += " fewest"
		}
		return s + ")"
	default:
		return "(" + sessLits[t.Draw(len(sessLits))] + " " + genBody(t, depth-1, defs, used, hasOr) + ")"
	}
}

type sessCmd struct {
	Tmpl      string   // with %R0 %R1 ... placeholders
	Refs      []string // definition name per placeholder
	Quantfied bool     // first reference under a quantifier
}

func (c sessCmd) render(f func(i int, name string) string) string {
	s := c.Tmpl
	for i, n := range c.Refs {
		s = strings.Replace(s, fmt.Sprintf("%%R%d", i), f(i, n), 1)
	}
	return s
}

type cmdGen struct {
	defs        []sessDef
	refs        []string
	firstUnderQ bool // some definition's first occurrence sits under a quantifier
	seen        map[string]bool
	minTwoLoop  bool // a reference sits inside a loop that must iterate at least twice
}

var cmdQuants = []struct {
	text   string
	fewest bool
	min2   bool
}{
	{"at least 1", true, false}, {"maybe", false, false}, {"exactly 2", false, true}, {"at least 2", true, true},
	{"between 2 and 3", true, true}, {"at most 2", true, false}, {"exactly 3", false, true}, {"between 1 and 2", true, false},
}

func (g *cmdGen) ref(t *Tape, underQ, min2 bool) string {
	if len(g.refs) >= 6 {
		return sessLits[t.Draw(len(sessLits))]
	}
	n := g.defs[t.Draw(len(g.defs))].Name
	// bias towards a name that was used already: repeated references are the point
	if len(g.refs) > 0 && t.Draw(2) == 1 {
		n = g.refs[t.Draw(len(g.refs))]
	}
	if !g.seen[n] {
		g.seen[n] = true
		if underQ {
			g.firstUnderQ = true
		}
	}
	if min2 {
		g.minTwoLoop = true
	}
	g.refs = append(g.refs, n)
	return fmt.Sprintf("%%R%d", len(g.refs)-1)
}

func (g *cmdGen) seq(t *Tape, depth int, underQ, min2 bool) string {
	n := t.Range(1, 3)
	var parts []string
	for i := 0; i < n; i++ {
		parts = append(parts, g.item(t, depth, underQ, min2))
	}
	return strings.Join(parts, " ")
}

func (g *cmdGen) item(t *Tape, depth int, underQ, min2 bool) string {
	max := 5
	if depth <= 0 {
		max = 2
	}
	switch t.Draw(max) {
	case 0:
		return g.ref(t, underQ, min2)
	case 1:
		return sessLits[t.Draw(len(sessLits))]
	case 2:
		return "(" + g.seq(t, depth-1, underQ, min2) + ")"
	case 3:
		q := cmdQuants[t.Draw(len(cmdQuants))]
		s := q.text + " (" + g.seq(t, depth-1, true, min2 || q.min2) + ")"
		if q.fewest && t.Draw(4) == 1 {
			s += " fewest"
		}
		return s
	default:
		return "((" + g.seq(t, depth-1, underQ, min2) + ") or (" + g.seq(t, depth-1, underQ, min2) + "))"
	}
}

func genCmd(t *Tape, defs []sessDef, ctx *RunCtx) sessCmd {
	pick := func() string { return defs[t.Draw(len(defs))].Name }
	switch t.Draw(16) {
	case 0:
		return sessCmd{Tmpl: "find all %R0", Refs: []string{pick()}}
	case 1:
		return sessCmd{Tmpl: "find all 'a' %R0", Refs: []string{pick()}}
	case 2:
		return sessCmd{Tmpl: "find all %R0 'b'", Refs: []string{pick()}}
	case 3:
		return sessCmd{Tmpl: "find all at least 1 %R0", Refs: []string{pick()}, Quantfied: true}
	case 4:
		return sessCmd{Tmpl: "find all (%R0) or 'c'", Refs: []string{pick()}}
	case 5:
		n := pick()
		return sessCmd{Tmpl: "find all %R0 ' ' %R1", Refs: []string{n, n}}
	case 6:
		return sessCmd{Tmpl: "replace all %R0 with 'X'", Refs: []string{pick()}}
	case 7:
		return sessCmd{Tmpl: "find all maybe %R0 'c'", Refs: []string{pick()}, Quantfied: true}
	case 8:
		n := pick()
		return sessCmd{Tmpl: "find all %R0 %R1 %R2", Refs: []string{n, pick(), n}}
	case 9:
		return sessCmd{Tmpl: "find skip 1 take 2 %R0 maybe ('b' %R1)", Refs: []string{pick(), pick()}}
	default:
		g := &cmdGen{defs: defs, seen: map[string]bool{}}
		body := g.seq(t, 2, false, false)
		if len(g.refs) == 0 {
			body = g.ref(t, false, false) + " " + body
		}
		head := []string{"find all ", "find top 2 ", "replace all ", "find last 2 "}[t.Draw(4)]
		tail := ""
		if head == "replace all " {
			tail = " with '<' value '>'"
		}
		if g.minTwoLoop {
			ctx.Count("sess_reference_inside_loop_min2", 1)
		}
		return sessCmd{Tmpl: head + body + tail, Refs: g.refs, Quantfied: g.firstUnderQ}
	}
}

type sessDesc struct {
	Whole    string   `json:"whole_source"`
	Text     string   `json:"text"`
	Alone    []string `json:"commands_alone"`
	Expanded []string `json:"references_expanded"`
	Subr     []string `json:"inline_subroutine,omitempty"`
	Results  []string `json:"results,omitempty"`
}

func (c *c13) runSession(ctx *RunCtx) *RunResult {
	t := ctx.T
	res := &RunResult{}
	addV := func(oracle, key, detail string) {
		if !hasKey(res.Violations, key) {
			res.Violations = append(res.Violations, Violation{oracle, key, detail})
		}
	}
	// now and then a wide session: more commands than any internal worker pool has lanes,
	// on a text beyond 64 KiB whose interesting part starts right at that boundary
	wideOdds := 10000
	if c.env.Tier == "thorough" {
		wideOdds = 3000
	}
	wide := t.Draw(wideOdds) == 1
	ndefs := t.Range(1, 3)
	var defs []sessDef
	orBody := map[string]bool{}
	latest := map[string]sessDef{}
	redefined := false
	// expandBody writes out the references of a body as they are bound right now
	expandBody := func(b string) string {
		for i := 3; i >= 1; i-- {
			n := fmt.Sprintf("p%d", i)
			if strings.Contains(b, n) {
				b = strings.ReplaceAll(b, n, "("+latest[n].Expanded+")")
			}
		}
		return b
	}
	addDef := func(name string, force string) {
		used := map[string]bool{}
		hasOr := false
		// a body may only refer to names that are bound at this point (other than its own)
		var visible []sessDef
		for _, dd := range defs {
			if dd.Name != name && latest[dd.Name].Body == dd.Body {
				visible = append(visible, dd)
			}
		}
		body := genBody(t, 2, visible, used, &hasOr)
		if force != "" {
			body = force
			used = map[string]bool{}
		}
		d := sessDef{Name: name, Body: body}
		for n := range used {
			d.Refs = append(d.Refs, n)
			if orBody[n] {
				hasOr = true
			}
		}
		sort.Strings(d.Refs)
		if len(used) > 0 {
			ctx.Count("sess_nested_definition", 1)
		}
		d.Expanded = expandBody(body)
		orBody[d.Name] = hasOr
		latest[name] = d
		defs = append(defs, d)
	}
	for i := 0; i < ndefs; i++ {
		force := ""
		if wide && i == 0 && t.Draw(2) == 1 {
			force = []string{"'ab'", "'ba'", "'ab' 'c'"}[t.Draw(3)] // a definition that starts with a plain literal
		}
		addDef(fmt.Sprintf("p%d", i+1), force)
	}
	// now and then an earlier name is bound again after other definitions used it:
	// they keep the body they were made with, later references see the new one
	if ndefs >= 2 && t.Draw(6) == 1 {
		addDef(fmt.Sprintf("p%d", 1+t.Draw(ndefs-1)), "")
		redefined = true
		ctx.Count("sess_name_redefined", 1)
	}
	byName := latest
	expand := func(name string) string { return latest[name].Expanded }
	// definitions needed (transitively) by a set of names, in order
	needed := func(names []string) string {
		need := map[string]bool{}
		var mark func(n string)
		mark = func(n string) {
			if need[n] {
				return
			}
			need[n] = true
			for _, r := range byName[n].Refs {
				mark(r)
			}
		}
		for _, n := range names {
			mark(n)
		}
		var sb strings.Builder
		for _, d := range defs {
			if need[d.Name] || redefined {
				sb.WriteString("set " + d.Name + " to pattern " + d.Body + "\n")
			}
		}
		return sb.String()
	}
	ncmds := t.Range(1, 3)
	if wide {
		ncmds = t.Range(9, 12)
		ctx.Count("sess_wide_many_commands_64k_text", 1)
	}
	var cmds []sessCmd
	refCount := map[string]int{}
	refCmds := map[string]map[int]bool{}
	for j := 0; j < ncmds; j++ {
		cm := genCmd(t, defs, ctx)
		if wide && j == 0 {
			cm = sessCmd{Tmpl: "find all %R0 maybe digit", Refs: []string{"p1"}}
		}
		cmds = append(cmds, cm)
		per := map[string]int{}
		for _, n := range cm.Refs {
			refCount[n]++
			per[n]++
			if refCmds[n] == nil {
				refCmds[n] = map[int]bool{}
			}
			refCmds[n][j] = true
		}
		for _, k := range per {
			if k >= 2 {
				ctx.Count("sess_def_referenced_twice_in_command", 1)
			}
		}
	}
	for n, k := range refCount {
		if k >= 2 {
			res.Nontrivial = true
			if orBody[n] {
				ctx.Count("sess_or_in_body_referenced_twice", 1)
			}
		}
		if len(refCmds[n]) >= 2 {
			ctx.Count("sess_def_referenced_from_two_commands", 1)
		}
	}
	// text over a small alphabet
	tl := t.Range(0, 24)
	tb := make([]byte, tl)
	for i := range tb {
		tb[i] = "abc1 ab"[t.Draw(7)]
	}
	text := string(tb)
	if wide {
		// '#' occurs in no literal or class of the generator except `any`
		text = strings.Repeat("#", 65536-t.Range(0, 3)) + "abab1 bac ab" + text + "ab ab1"
	}
	randSeed := int64(t.Draw(1 << 30))
	mapSeed := uint64(t.Draw(1 << 30))
	useFiles := ncmds >= 2 && t.Draw(3) == 1
	text2 := ""
	if useFiles {
		tb2 := make([]byte, t.Range(0, 16))
		for i := range tb2 {
			tb2[i] = "abc1 ab"[t.Draw(7)]
		}
		text2 = string(tb2)
	}

	var whole strings.Builder
	for _, d := range defs {
		whole.WriteString("set " + d.Name + " to pattern " + d.Body + "\n")
	}
	d := &sessDesc{Text: text}
	var alone, expanded, subr []string
	for _, cm := range cmds {
		plain := cm.render(func(i int, n string) string { return n })
		whole.WriteString(plain + "\n")
		alone = append(alone, needed(cm.Refs)+plain)
		expanded = append(expanded, cm.render(func(i int, n string) string { return "(" + expand(n) + ")" }))
		if !cm.Quantfied {
			first := map[string]bool{}
			subr = append(subr, cm.render(func(i int, n string) string {
				if !first[n] {
					first[n] = true
					return "({" + expand(n) + "} = " + n + ")"
				}
				return n
			}))
		} else {
			subr = append(subr, "")
		}
	}
	d.Whole, d.Alone, d.Expanded, d.Subr = whole.String(), alone, expanded, subr

	simrt.Reset(1, soloPlan(t, treeSpawnsCached(c.env), 20000), mapSeed)
	simrt.Solo()
	budget := uint64(400000)
	if wide {
		budget = 40000000 // readings that need more are discarded
	}
	eval := func(src string) Outcome {
		rand.Seed(randSeed)
		randSeed++
		simrt.OpStart(budget)
		o := doCompileRun(src, text)
		simrt.OpEnd()
		return o
	}
	oWhole := eval(d.Whole)
	var oAlone, oExp, oSub []Outcome
	aborted := oWhole.Class == "abort"
	for j := range cmds {
		oAlone = append(oAlone, eval(alone[j]))
		if wide && j >= 3 {
			// the concatenation clause needs every command alone; the other readings are sampled
			subr[j] = ""
			oExp = append(oExp, oAlone[j])
			oSub = append(oSub, Outcome{})
			continue
		}
		oExp = append(oExp, eval(expanded[j]))
		if subr[j] != "" {
			oSub = append(oSub, eval(subr[j]))
		} else {
			oSub = append(oSub, Outcome{})
		}
		if oAlone[j].Class == "abort" || oExp[j].Class == "abort" || oSub[j].Class == "abort" {
			aborted = true
		}
	}
	// the same clause through files: RunFiles(whole, [f1, f2]) must be the
	// concatenation over the commands of RunFiles(command alone, [f1, f2])
	filesWhole, filesConcat := "", ""
	filesChecked := false
	if useFiles && !aborted && oWhole.Class == "ok" {
		f1 := filepath.Join(ctx.World, "s1.txt")
		f2 := filepath.Join(ctx.World, "s2.txt")
		os.WriteFile(f1, []byte(text), 0644)
		os.WriteFile(f2, []byte(text2), 0644)
		runOn := func(src string) Outcome {
			rand.Seed(randSeed)
			randSeed++
			simrt.OpStart(budget)
			defer simrt.OpEnd()
			v, oc := doCompile(src)
			if v == nil {
				return oc
			}
			o, _ := doRunFiles(v, []string{f1, f2}, engine.NOTHING, ctx.World)
			return o
		}
		ow := runOn(d.Whole)
		okAll := ow.Class == "ok"
		filesWhole = ow.Digest
		for j := range cmds {
			oa := runOn(alone[j])
			if oa.Class != "ok" {
				okAll = false
			}
			filesConcat += oa.Digest
		}
		filesChecked = okAll
	}
	res.Steps = simrt.Steps
	simrt.Stop()
	evh := hashStr(oWhole.String())
	for j := range cmds {
		evh = mix(evh, hashStr(oAlone[j].String()), hashStr(oExp[j].String()), hashStr(oSub[j].String()))
	}
	evh = mix(evh, hashStr(filesWhole), hashStr(filesConcat))
	if filesChecked {
		ctx.Count("sess_runfiles_concatenation_compared", 1)
		if filesWhole != filesConcat {
			addV("session-concatenation", "sess-runfiles-concat-mismatch", fmt.Sprintf("RunFiles of the multi-command source over two files gives %q, but its commands taken alone with their definitions, run over the same two files and concatenated, give %q; source:\n%s\nfiles hold %q and %q", trunc(filesWhole, 300), trunc(filesConcat, 300), d.Whole, text, text2))
		}
	}
	res.EventHash = evh
	res.Sig = mix(hashStr(d.Whole), hashStr(text))
	d.Results = append(d.Results, "whole: "+trunc(oWhole.String(), 300))
	for j := range cmds {
		d.Results = append(d.Results, fmt.Sprintf("cmd %d alone: %s | expanded: %s | subroutine: %s", j, trunc(oAlone[j].String(), 200), trunc(oExp[j].String(), 200), trunc(oSub[j].String(), 200)))
	}
	res.Desc = d
	if aborted {
		ctx.Count("sess_discarded_budget", 1)
		res.Nontrivial = false
		return res
	}
	// whole == concatenation of the commands alone (when everything compiles)
	allOK := oWhole.Class == "ok"
	concat := ""
	for j := range cmds {
		if oAlone[j].Class != "ok" {
			allOK = false
		}
		concat += oAlone[j].Digest
	}
	if allOK && concat != oWhole.Digest {
		addV("session-concatenation", "sess-concat-mismatch", fmt.Sprintf("multi-command source gives %q but its commands taken alone with their definitions give %q; source:\n%s\ntext=%q", trunc(oWhole.Digest, 300), trunc(concat, 300), d.Whole, text))
	} else if !allOK {
		// a whole source that fails while every command alone compiles (or vice versa) is also a dependence between commands
		aloneOK := true
		for j := range cmds {
			if oAlone[j].Class != "ok" {
				aloneOK = false
			}
		}
		allNeeded := true
		for _, df := range defs {
			if refCount[df.Name] == 0 {
				nested := false
				for _, o := range defs {
					for _, r := range o.Refs {
						if r == df.Name && refCount[o.Name] > 0 {
							nested = true
						}
					}
				}
				if !nested {
					allNeeded = false // an unused definition may legitimately be the one that fails
				}
			}
		}
		if (oWhole.Class == "ok" && !aloneOK) || (oWhole.Class != "ok" && aloneOK && allNeeded) {
			addV("session-concatenation", "sess-accept-mismatch:"+oWhole.Class, fmt.Sprintf("whole source outcome %q but commands alone all ok=%v; source:\n%s", trunc(oWhole.String(), 200), aloneOK, d.Whole))
		}
	}
	sameSess := func(a, b Outcome) bool {
		if a.Class == "error" && b.Class == "error" {
			return true // messages carry source positions, which differ between readings
		}
		return a.Same(b)
	}
	for j := range cmds {
		a, e, s := oAlone[j], oExp[j], oSub[j]
		if !sameSess(a, e) {
			addV("definition-transparency", "sess-named-vs-expanded:"+a.Class+"/"+e.Class, fmt.Sprintf("command through `set .. to pattern` gives %q, with the body written out %q\nnamed:\n%s\nexpanded:\n%s\ntext=%q", trunc(a.String(), 300), trunc(e.String(), 300), alone[j], expanded[j], text))
		}
		if subr[j] != "" {
			ctx.Count("sess_subroutine_reading_compared", 1)
			if !sameSess(s, e) {
				addV("definition-transparency", "sess-subroutine-vs-expanded:"+s.Class+"/"+e.Class, fmt.Sprintf("command through inline subroutine gives %q, with the body written out %q\nsubroutine:\n%s\nexpanded:\n%s\ntext=%q", trunc(s.String(), 300), trunc(e.String(), 300), subr[j], expanded[j], text))
			}
		}
	}
	return res
}

func solorefMain(args []string) int {
	var verif string
	var item int
	var rseed int64
	var mseed uint64
	for i := 0; i+1 < len(args); i += 2 {
		switch args[i] {
		case "-verif":
			verif = args[i+1]
		case "-item":
			fmt.Sscan(args[i+1], &item)
		case "-rseed":
			fmt.Sscan(args[i+1], &rseed)
		case "-mseed":
			fmt.Sscan(args[i+1], &mseed)
		}
	}
	simProcessSetup()
	c := &c13{}
	if err := c.loadPool(&Env{VerifDir: verif}); err != nil {
		fmt.Fprintln(os.Stderr, err)
		return 2
	}
	r := c.soloref(item, rseed, mseed)
	os.Stdout.Write(mustJSON(r))
	return 0
}
