package main

// The tape: every choice of a simulated run (workload, world, fault plan,
// preemption plan, rand seed, map-order seed) is one bounded integer draw.
// A run is a pure function of (code, tape). In generation mode draws come
// from a splitmix64 stream seeded from the run seed, after an optional forced
// prefix (systematic sweeps); in replay mode they come from the recorded
// tape, reduced modulo the bound, and are 0 past its end, so that a shrunk or
// edited tape is always a valid run. Generators are written so that draw 0 is
// the simplest choice.

type Tape struct {
	state  uint64
	prefix []uint64
	replay []uint64
	isRep  bool
	pos    int
	Rec    []uint64
}

func NewTape(seed uint64, prefix []uint64) *Tape {
	return &Tape{state: seed*0x9e3779b97f4a7c15 + 0x1234567, prefix: prefix}
}

func ReplayTape(rec []uint64) *Tape {
	return &Tape{replay: rec, isRep: true}
}

func splitmix(s *uint64) uint64 {
	*s += 0x9e3779b97f4a7c15
	z := *s
	z = (z ^ (z >> 30)) * 0xbf58476d1ce4e5b9
	z = (z ^ (z >> 27)) * 0x94d049bb133111eb
	return z ^ (z >> 31)
}

func mix(a ...uint64) uint64 {
	h := uint64(0xcbf29ce484222325)
	for _, x := range a {
		h ^= x
		h *= 0x100000001b3
		h ^= h >> 29
		h *= 0xbf58476d1ce4e5b9
	}
	return h ^ (h >> 32)
}

// Draw returns a value in [0, n).
func (t *Tape) Draw(n int) int {
	if n <= 1 {
		// still consumes a slot so that tape positions stay aligned
		t.Rec = append(t.Rec, 0)
		t.pos++
		return 0
	}
	var v uint64
	switch {
	case t.isRep:
		if t.pos < len(t.replay) {
			v = t.replay[t.pos] % uint64(n)
		}
	case t.pos < len(t.prefix):
		v = t.prefix[t.pos] % uint64(n)
	default:
		v = splitmix(&t.state) % uint64(n)
	}
	t.pos++
	t.Rec = append(t.Rec, v)
	return int(v)
}

// Range returns a value in [lo, hi].
func (t *Tape) Range(lo, hi int) int {
	if hi <= lo {
		t.Draw(1)
		return lo
	}
	return lo + t.Draw(hi-lo+1)
}

// Chance returns true with probability num/den; draw 0 means false.
func (t *Tape) Chance(num, den int) bool {
	return t.Draw(den) >= den-num
}

func (t *Tape) U64() uint64 {
	return uint64(t.Draw(1<<31))<<31 | uint64(t.Draw(1<<31))
}

// shrinkTape minimises a failing tape: test reports whether the candidate
// still shows the same violation. Budgeted in executions.
func shrinkTape(tape []uint64, budget int, test func([]uint64) bool) ([]uint64, int) {
	cur := append([]uint64(nil), tape...)
	execs := 0
	try := func(c []uint64) bool {
		if execs >= budget {
			return false
		}
		execs++
		if test(c) {
			cur = c
			return true
		}
		return false
	}
	improved := true
	for improved && execs < budget {
		improved = false
		// drop the tail
		for n := len(cur) / 2; n >= 1; n /= 2 {
			for len(cur) >= n && try(append([]uint64(nil), cur[:len(cur)-n]...)) {
				improved = true
			}
		}
		// delete blocks
		for size := 8; size >= 1; size /= 2 {
			for i := 0; i+size <= len(cur); {
				c := append(append([]uint64(nil), cur[:i]...), cur[i+size:]...)
				if try(c) {
					improved = true
				} else {
					i++
				}
				if execs >= budget {
					break
				}
			}
		}
		// zero blocks, then single values: zero, halve, decrement
		for size := 8; size >= 2; size /= 2 {
			for i := 0; i+size <= len(cur); i += size {
				allZero := true
				for _, v := range cur[i : i+size] {
					if v != 0 {
						allZero = false
					}
				}
				if allZero {
					continue
				}
				c := append([]uint64(nil), cur...)
				for j := i; j < i+size; j++ {
					c[j] = 0
				}
				if try(c) {
					improved = true
				}
			}
		}
		for i := 0; i < len(cur) && execs < budget; i++ {
			if cur[i] == 0 {
				continue
			}
			c := append([]uint64(nil), cur...)
			c[i] = 0
			if try(c) {
				improved = true
				continue
			}
			for cur[i] > 1 {
				c = append([]uint64(nil), cur...)
				c[i] = cur[i] / 2
				if !try(c) {
					break
				}
				improved = true
			}
			if cur[i] > 0 {
				c = append([]uint64(nil), cur...)
				c[i] = cur[i] - 1
				if try(c) {
					improved = true
				}
			}
		}
	}
	return cur, execs
}
