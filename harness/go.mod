module voresim

go 1.21
