package main

import (
	"fmt"
	"hash/fnv"
	"regexp"
	"runtime"
	"sort"
	"strconv"
	"strings"

	"github.com/jmeaster30/vore/libvore"
	"github.com/jmeaster30/vore/libvore/engine"
	"verif/simrt"
)

// Outcome of one API call: class plus a digest of everything observable.
type Outcome struct {
	Class  string `json:"class"` // ok | error | panic | abort
	Detail string `json:"detail,omitempty"`
	Digest string `json:"digest,omitempty"`
	N      int    `json:"n,omitempty"`
}

func (o Outcome) String() string {
	switch o.Class {
	case "ok":
		return "ok " + o.Digest
	default:
		return o.Class + " " + o.Detail
	}
}

func (o Outcome) Same(p Outcome) bool {
	return o.Class == p.Class && o.Detail == p.Detail && o.Digest == p.Digest
}

func hashStr(s string) uint64 {
	h := fnv.New64a()
	h.Write([]byte(s))
	return h.Sum64()
}

// topVoreFrame names the innermost vore function on the stack of a panic.
// Line numbers are left out: they are those of the instrumented copy.
func topVoreFrame() string {
	pcs := make([]uintptr, 64)
	n := runtime.Callers(3, pcs)
	frames := runtime.CallersFrames(pcs[:n])
	for {
		f, more := frames.Next()
		if strings.Contains(f.Function, "jmeaster30/vore") {
			fn := f.Function
			if i := strings.LastIndex(fn, "/"); i >= 0 {
				fn = fn[i+1:]
			}
			return fn
		}
		if !more {
			break
		}
	}
	return "?"
}

// sawSoftHeap: an op of the current run was stopped by the default heap safety
// limit. Memory use of Run is not bounded by any claimed property, so the run
// is discarded (counted), never reported.
var sawSoftHeap bool

// panicOutcome classifies a recovered panic value. Called from a deferred
// function directly (Callers skip count depends on it).
func panicOutcome(r any) Outcome {
	if a, ok := r.(simrt.Abort); ok {
		if a.Kind == "heap-soft" {
			sawSoftHeap = true
		}
		return Outcome{Class: "abort", Detail: a.Kind}
	}
	msg := fmt.Sprint(r)
	if e, ok := r.(error); ok {
		msg = e.Error()
	}
	if len(msg) > 200 {
		msg = msg[:200]
	}
	return Outcome{Class: "panic", Detail: msg + " @" + topVoreFrame()}
}

func valueDigest(sb *strings.Builder, v engine.Value) {
	switch x := v.(type) {
	case engine.ValueString:
		sb.WriteString(strconv.Quote(x.Value))
	case engine.ValueHashMap:
		keys := make([]string, 0, len(x.Value))
		for k := range x.Value {
			keys = append(keys, k)
		}
		sort.Strings(keys)
		sb.WriteByte('{')
		for _, k := range keys {
			sb.WriteString(strconv.Quote(k))
			sb.WriteByte(':')
			valueDigest(sb, x.Value[k])
			sb.WriteByte(',')
		}
		sb.WriteByte('}')
	case nil:
		sb.WriteString("nil")
	default:
		fmt.Fprintf(sb, "%T", v)
	}
}

// matchesDigest renders every observable field of a result list. Filenames
// are rendered relative to strip (the scratch world root) when given.
func matchesDigest(ms engine.Matches, withFilename bool, strip string) string {
	var sb strings.Builder
	for _, m := range ms {
		if withFilename {
			fn := m.Filename
			if strip != "" {
				fn = strings.TrimPrefix(fn, strip)
			}
			sb.WriteString(strconv.Quote(fn))
		}
		fmt.Fprintf(&sb, "#%d[%d,%d)L%d-%dC%d-%d=%s", m.MatchNumber, m.Offset.Start, m.Offset.End, m.Line.Start, m.Line.End, m.Column.Start, m.Column.End, strconv.Quote(m.Value))
		if m.Replacement.HasValue() {
			sb.WriteString("->" + strconv.Quote(m.Replacement.GetValue()))
		}
		valueDigest(&sb, m.Variables)
		sb.WriteByte(';')
	}
	return sb.String()
}

var pathRe = regexp.MustCompile(`/[^\s:]+`)

// panicKey builds the stable site key of a panic detail "message @function":
// the message with digits masked, cut to 50 characters, plus the full name of
// the innermost vore function.
func panicKey(detail string) string {
	msg, fn := detail, "?"
	if i := strings.LastIndex(detail, " @"); i >= 0 {
		msg, fn = detail[:i], detail[i+2:]
	}
	msg = pathRe.ReplaceAllString(msg, "<path>")
	msg = digitsRe.ReplaceAllString(msg, "#")
	if len(msg) > 50 {
		msg = msg[:50]
	}
	return msg + " @" + fn
}

// doCompile runs Compile under recover and classifies what came back.
func doCompile(src string) (v *libvore.Vore, out Outcome) {
	defer func() {
		if r := recover(); r != nil {
			v = nil
			out = panicOutcome(r)
		}
	}()
	v, err := libvore.Compile(src)
	if err != nil {
		if v != nil {
			return nil, Outcome{Class: "error", Detail: "BOTH program and error: " + err.Error()}
		}
		return nil, Outcome{Class: "error", Detail: err.Error()}
	}
	if v == nil {
		return nil, Outcome{Class: "error", Detail: "NEITHER program nor error"}
	}
	return v, Outcome{Class: "ok"}
}

func doRun(v *libvore.Vore, text string) (out Outcome) {
	defer func() {
		if r := recover(); r != nil {
			out = panicOutcome(r)
		}
	}()
	ms := v.Run(text)
	return Outcome{Class: "ok", Digest: matchesDigest(ms, false, ""), N: len(ms)}
}

// doRunKeep is doRun that also hands the result list to the caller.
func doRunKeep(v *libvore.Vore, text string) (out Outcome, ms engine.Matches) {
	defer func() {
		if r := recover(); r != nil {
			out = panicOutcome(r)
			ms = nil
		}
	}()
	ms = v.Run(text)
	return Outcome{Class: "ok", Digest: matchesDigest(ms, false, ""), N: len(ms)}, ms
}

func doRunFiles(v *libvore.Vore, files []string, mode engine.ReplaceMode, strip string) (out Outcome, ms engine.Matches) {
	defer func() {
		if r := recover(); r != nil {
			out = panicOutcome(r)
			ms = nil
		}
	}()
	ms = v.RunFiles(files, mode, false)
	return Outcome{Class: "ok", Digest: matchesDigest(ms, true, strip), N: len(ms)}, ms
}

// doCompileRun = Compile then Run, as one op.
func doCompileRun(src, text string) Outcome {
	v, o := doCompile(src)
	if v == nil {
		return o
	}
	return doRun(v, text)
}

// treeSpawns reports whether the tree under test has go statements (from the
// instrumenter's inventory). Checks whose property has no scheduling of its
// own then draw a preemption plan for their single-task runs, so that the
// interleaving of goroutines the code itself starts is explored and replayed.
func treeSpawns(env *Env) bool {
	var inv inventoryFile
	return readJSON(env.Inventory, &inv) == nil && len(inv.GoStmts) > 0
}

var spawnsCache = map[string]bool{}

func treeSpawnsCached(env *Env) bool {
	if v, ok := spawnsCache[env.Inventory]; ok {
		return v
	}
	v := treeSpawns(env)
	spawnsCache[env.Inventory] = v
	return v
}

// soloPlan draws a preemption plan for a single-task run of about estSteps
// steps. Without go statements in the tree it draws nothing.
func soloPlan(t *Tape, spawns bool, estSteps int) []simrt.Plan {
	if !spawns {
		return nil
	}
	var plan []simrt.Plan
	if estSteps < 10 {
		estSteps = 10
	}
	k := t.Range(0, 5)
	ats := make([]int, k)
	for i := range ats {
		ats[i] = t.Range(1, estSteps)
	}
	sort.Ints(ats)
	for _, a := range ats {
		plan = append(plan, simrt.Plan{Kind: simrt.KStep, At: uint64(a), To: 1 + t.Draw(8)})
	}
	k = t.Range(0, 6)
	at := uint64(0)
	for i := 0; i < k; i++ {
		at += uint64(t.Range(1, 6))
		plan = append(plan, simrt.Plan{Kind: simrt.KAccess, At: at, To: 1 + t.Draw(8)})
	}
	k = t.Range(0, 3)
	at = 0
	for i := 0; i < k; i++ {
		at += uint64(t.Range(1, 4))
		plan = append(plan, simrt.Plan{Kind: simrt.KOp, At: at, To: 1 + t.Draw(8)})
	}
	return plan
}
