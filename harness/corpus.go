package main

import (
	"fmt"
	"path/filepath"
	"strings"
)

type Item struct {
	Name string   `json:"name"`
	Src  string   `json:"src"`
	Text string   `json:"text"`
	File string   `json:"file,omitempty"`
	Tags []string `json:"tags,omitempty"`
}

// builtin corpus: programs aimed at the state the claimed properties are
// about (regex group numbering, stored global patterns, loops with random
// ids, transforms, replace commands of every length relation, anchors).
var builtinCorpus = []Item{
	{Name: "rx-groups-2", Src: "find all @/(a)(b)\\2\\1/", Text: "xx abba abab abba"},
	{Name: "rx-groups-3", Src: "find all @/(x)(y)(z)\\3/", Text: "xyzz xyzx xyzz"},
	{Name: "rx-named", Src: "find all @/(?<n>q)(r)\\k<n>/", Text: "qrq qrr qrq"},
	{Name: "rx-two-literals", Src: "find all @/(a)\\1/ ' ' @/(b)\\2/", Text: "aa bb ab aa bb"},
	{Name: "rx-nested-groups", Src: "find all @/((a)(b))\\1\\2\\3/", Text: "ababab abab ababab"},
	{Name: "rx-alt-group", Src: "find all @/(a|b)(c|d)\\1/", Text: "aca bdb acb adb"},
	{Name: "rx-quant", Src: "find all @/(ab)+c/", Text: "ababc abc c"},
	{Name: "var-backref", Src: "find all 'a' = v v", Text: "aa ab aa"},
	{Name: "loop-digits", Src: "find all at least 1 digit", Text: "12 345 6"},
	{Name: "loop-nested", Src: "find all at least 1 (at least 1 letter ' ')", Text: "ab cd ef! gh "},
	{Name: "loop-fewest", Src: "find all between 2 and 4 letter fewest", Text: "abcdefghij"},
	{Name: "named-loop", Src: "find all at least 1 (digit = d) named ds", Text: "12 345"},
	{Name: "set-pattern-or", Src: "set p to pattern 'a' or 'b'\nfind all p p", Text: "ab ba aa cc"},
	{Name: "set-pattern-in", Src: "set p to pattern in 'a' to 'c'\nfind all at least 2 p", Text: "abc xx cab"},
	{Name: "set-pattern-2cmd", Src: "set p to pattern 'a' or 'b'\nfind all p\nfind all p 'c'", Text: "abc bc"},
	{Name: "set-pattern-pred", Src: "set even to pattern at least 1 digit begin return match % 2 == 0 end\nfind all even", Text: "12 13 14 7"},
	{Name: "subroutine", Src: "find all {'a' maybe sub 'b'} = sub", Text: "aabb ab aaabbb"},
	{Name: "subroutine-call2", Src: "find all {digit digit} = dd '-' dd", Text: "12-34 5-67 89-01"},
	{Name: "two-commands", Src: "find all 'a'\nfind all 'b'", Text: "abab"},
	{Name: "three-commands", Src: "find all digit\nfind all upper\nfind top 1 lower", Text: "a1B2c3D"},
	{Name: "replace-longer", Src: "replace all 'a' with 'xyz'", Text: "banana"},
	{Name: "replace-shorter", Src: "replace all 'ana' with '-'", Text: "banana ananas"},
	{Name: "replace-empty", Src: "replace all 'an' with ''", Text: "banana"},
	{Name: "replace-capture", Src: "replace all (digit = d) '-' (digit = e) with e '-' d", Text: "1-2 3-4 55"},
	{Name: "replace-transform", Src: "set up to transform\n  return match + match\nend\nreplace all at least 1 digit with up", Text: "a1b22c"},
	{Name: "replace-transform-loop", Src: "set rep to transform\n  set r to ''\n  set i to 0\n  loop\n    if i >= 2 then\n      break\n    end\n    set r to r + match\n    set i to i + 1\n  end\n  return r\nend\nreplace all letter with rep", Text: "ab1"},
	{Name: "replace-two", Src: "replace all 'a' with 'b'\nreplace all 'b' with 'cc'", Text: "abab"},
	{Name: "replace-builtins", Src: "replace all 'x' with matchNumber ':' startOffset", Text: "x.x..x"},
	{Name: "replace-none", Src: "replace all 'zzz' with 'y'", Text: "no match here"},
	{Name: "anchors-line", Src: "find all line start at least 1 letter line end", Text: "abc\ndef g\nhi\n"},
	{Name: "anchors-word", Src: "find all word start 'a' at least 0 letter word end", Text: "an apple a day banana"},
	{Name: "anchors-file", Src: "find all file start at least 1 any fewest line end", Text: "first line\nsecond"},
	{Name: "whole-line", Src: "find all whole line", Text: "one\ntwo\n\nthree"},
	{Name: "not-in", Src: "find all at least 1 not in 'a', 'e', 'i', 'o', 'u', ' '", Text: "the quick brown fox"},
	{Name: "caseless", Src: "find all caseless 'abc'", Text: "abc ABC aBc abd"},
	{Name: "maybe", Src: "find all 'a' maybe 'b' 'c'", Text: "ac abc abbc"},
	{Name: "exactly", Src: "find all exactly 3 digit", Text: "1234567"},
	{Name: "or-chain", Src: "find all 'cat' or 'dog' or 'bird'", Text: "catdogbird cow"},
	{Name: "skip-take", Src: "find skip 1 take 2 'ab'", Text: "ab ab ab ab"},
	{Name: "last", Src: "find last 2 digit", Text: "1 2 3 4"},
	{Name: "nest-12", Src: "find all " + nestParens("'a' 'b'", 12), Text: "ab abab"},
	{Name: "nest-18", Src: "find all " + nestParens("'a'", 18) + " 'b'", Text: "ab abab"},
	{Name: "nest-seq-14", Src: "find all " + nestSeq(14), Text: "aaaaaaaaaaaaaaab"},
	// sources larger than a read buffer: long tokens and many commands
	{Name: "big-many-commands", Src: strings.Repeat("find all 'abc' digit\nfind top 2 letter 'x'\n", 220), Text: "abc1 qx abc2", Tags: []string{"big"}},
	{Name: "big-string-literal", Src: "find all '" + strings.Repeat("xy", 3000) + "' or 'k'", Text: "k xyxy k", Tags: []string{"big"}},
	{Name: "big-line-comment", Src: "-- " + strings.Repeat("c", 9000) + "\nfind all 'a'", Text: "banana", Tags: []string{"big"}},
	{Name: "big-block-comment", Src: "--(" + strings.Repeat("c )- ", 1800) + ")--\nfind all 'a' --( tail )--", Text: "banana", Tags: []string{"big"}},
	{Name: "big-identifier", Src: "find all (digit = " + strings.Repeat("v", 5000) + ") " + strings.Repeat("v", 5000), Text: "11 12 22", Tags: []string{"big"}},
	{Name: "big-regex-literal", Src: "find all @/" + strings.Repeat("ab", 2300) + "|k/", Text: "k ab k", Tags: []string{"big"}},
	{Name: "big-in-list", Src: "find all at least 1 in " + bigInList(600), Text: "a1 zz 99", Tags: []string{"big"}},
	{Name: "big-escapes-at-all-alignments", Src: escapesAtAlignments(), Text: "C:xampp k", Tags: []string{"big"}},
	{Name: "empty-text", Src: "find all 'a'", Text: ""},
	{Name: "empty-text-replace", Src: "replace all letter with 'x'", Text: ""},
	{Name: "err-parse-after-regex-groups-lookahead", Src: "find all @/(a)(b)(?=c)/", Text: "abc"},
	{Name: "err-parse-after-regex-groups-unbalanced", Src: "find all @/(a)(b)((c)/", Text: "abc"},
	{Name: "err-parse-after-regex-group-then-bad-token", Src: "find all @/(x)/ at least", Text: "x"},
	{Name: "err-undefined", Src: "find all nope", Text: "x"},
	{Name: "err-parse", Src: "find all at least", Text: "x"},
	{Name: "err-lex", Src: "find all 'unterminated", Text: "x"},
	{Name: "err-type", Src: "set f to transform\n  return 1 == 1\nend\nreplace all 'a' with f", Text: "a"},
}

// escapesAtAlignments: string escapes (valid \\xHH, \\x followed by non-hex, \\t, \\\\) placed
// so that they fall on every offset modulo 4096 within a few buffer lengths of source.
func escapesAtAlignments() string {
	var sb strings.Builder
	sb.WriteString("find all 'k'\n")
	for i := 0; sb.Len() < 13000; i++ {
		sb.WriteString("find top 1 '")
		sb.WriteString(strings.Repeat("p", i%23))
		sb.WriteString([]string{"C:\\xampp", "\\x41b", "a\\tb", "\\\\x", "\\xZ", "q\\x4"}[i%6])
		sb.WriteString("'\n")
	}
	return sb.String()
}

func bigInList(n int) string {
	var sb strings.Builder
	for i := 0; i < n; i++ {
		if i > 0 {
			sb.WriteString(", ")
		}
		fmt.Fprintf(&sb, "'%c%c'", 'a'+i%26, '0'+i%10)
	}
	return sb.String()
}

func nestParens(inner string, depth int) string {
	s := inner
	for i := 0; i < depth; i++ {
		s = "(" + s + ")"
	}
	return s
}

// nestSeq builds ('a' ('a' ('a' ... 'b'))) of the given depth.
func nestSeq(depth int) string {
	s := "'b'"
	for i := 0; i < depth; i++ {
		s = "('a' " + s + ")"
	}
	return s
}

type Corpus struct {
	Items []Item
}

func loadCorpus(verifDir string) (*Corpus, error) {
	var harvested []Item
	if err := readJSON(filepath.Join(verifDir, "corpus", "harvested.json"), &harvested); err != nil {
		return nil, err
	}
	c := &Corpus{}
	c.Items = append(c.Items, builtinCorpus...)
	for _, it := range harvested {
		if it.Text == "" {
			it.Text = "abc 123 test@example.com <div>x</div> 1,2,3\n12.5e3 255 256\n"
		}
		c.Items = append(c.Items, it)
	}
	return c, nil
}

func trunc(s string, n int) string {
	if len(s) > n {
		return s[:n] + "…"
	}
	return s
}
