package main

import (
	"fmt"
	"os"
)

func main() {
	if len(os.Args) < 2 {
		fmt.Fprintln(os.Stderr, "usage: voresim check|worker|replay|hashlog|gentape|describe|solo ...")
		os.Exit(2)
	}
	var rc int
	switch os.Args[1] {
	case "check":
		rc = checkMain(os.Args[2:])
	case "worker":
		rc = workerMain(os.Args[2:])
	case "replay":
		rc = replayMain(os.Args[2:])
	case "hashlog":
		rc = hashlogMain(os.Args[2:])
	case "gentape":
		rc = gentapeMain(os.Args[2:])
	case "describe":
		rc = describeMain(os.Args[2:])
	case "soloref":
		rc = solorefMain(os.Args[2:])
	case "c19refs":
		rc = c19refsMain(os.Args[2:])
	default:
		fmt.Fprintln(os.Stderr, "unknown subcommand", os.Args[1])
		rc = 2
	}
	os.Exit(rc)
}
