#!/usr/bin/env python3
"""Writes seeded/<name>/meta.json from tools/seeded_notes.json and seeded/<name>/{confirm,checks}.log."""
import json, os, re, glob
V = os.path.dirname(os.path.dirname(os.path.abspath(__file__)))
notes = json.load(open(os.path.join(V, "tools", "seeded_notes.json")))
rows = []
for d in sorted(glob.glob(os.path.join(V, "seeded", "*"))):
    name = os.path.basename(d)
    n = notes.get(name, {})
    confirm = open(os.path.join(d, "confirm.log")).read() if os.path.exists(os.path.join(d, "confirm.log")) else ""
    checks = open(os.path.join(d, "checks.log")).read() if os.path.exists(os.path.join(d, "checks.log")) else ""
    final = open(os.path.join(d, "final.log")).read() if os.path.exists(os.path.join(d, "final.log")) else ""
    fired, exit2, oracles = [], [], {}
    cur = None
    for line in checks.splitlines():
        m = re.match(r"== (C\d+) rc=(\d+)", line)
        if m:
            cur = m.group(1)
            if m.group(2) == "1": fired.append(cur)
            if m.group(2) == "2": exit2.append(cur)
        m = re.search(r"oracle=(\S+) key=(.*)", line)
        if m and cur: oracles.setdefault(cur, []).append(m.group(1) + ": " + m.group(2).strip()[:90])
    ffired, fexit2, foracles = [], [], {}
    cur = None
    for line in final.splitlines():
        m = re.match(r"== (C\d+) rc=(\d+)", line)
        if m:
            cur = m.group(1)
            if m.group(2) == "1": ffired.append(cur)
            if m.group(2) == "2": fexit2.append(cur)
        m = re.search(r"oracle=(\S+) key=(.*)", line)
        if m and cur: foracles.setdefault(cur, []).append(m.group(1) + ": " + m.group(2).strip()[:90])
    meta = {
        "name": name,
        "breaks_property": n.get("property", name[:3]),
        "needs_to_manifest": n.get("needs", ""),
        "source": "independent sub-agent given only the property text and a scratch worktree",
        "confirmed": "=> CONFIRMED" in confirm,
        "what_was_run": [
            "tools/eval_mutant.sh <scratch worktree> <mutant dir>: patch applies; repository suite (9 module dirs) passes with it; demonstration fails with it and passes without (see confirm.log)",
            "tools/matrix.sh quick: every registered quick check against a scratch worktree with the patch applied (see checks.log, made with the harness of that time)",
            "tools/matrix_primary.sh quick: with the final harness, the check of the property the change was written against (plus the check that catches it where that is another one) against a scratch worktree with the patch applied (see final.log); wave-a changes were also run with the patch applied to /repo itself (git apply / checkout)",
        ],
        "first_encounter": n.get("first_run", ""),
        "final_harness_quick_tier": {"checks_run": re.findall(r"== (C\d+) rc=", final), "checks_that_fire": ffired, "checks_exit_2": fexit2, "oracles": foracles},
        "earlier_full_matrix_all_eight_checks": {"checks_that_fired": fired, "checks_exit_2": exit2, "oracles": oracles},
        "checks_that_fire_now": sorted(set(ffired) | (set(fired) if not final else set())),
        "demonstration": [os.path.basename(f) for f in glob.glob(os.path.join(d, "*_test.go.txt"))],
    }
    json.dump(meta, open(os.path.join(d, "meta.json"), "w"), indent=1)
    rows.append((name, meta["breaks_property"], fired, exit2, meta["confirmed"]))
for r in rows:
    print("%-45s %s fired=%s exit2=%s confirmed=%s" % r)
