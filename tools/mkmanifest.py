#!/usr/bin/env python3
"""Generates MANIFEST.json. Edit CLAIMED / NA here, then run."""
import json, os
V = os.path.dirname(os.path.dirname(os.path.abspath(__file__)))

CLAIMED = {
 "C19": dict(
  text="Seeded search over goroutine interleavings of 2-4 concurrent callers of Compile/Run/RunFiles(NOTHING) on shared and private programs (now and then all on one hot program, on 64 KiB texts, or in a process that has never run vore code before: cold-start phases), with real vore code under a token scheduler that owns every preemption, including those of goroutines the code under test starts itself; oracles: per-op equality with the solo outcome, returned lists unchanged until the caller's last op, own happens-before monitor on package-level variables, deadlock/step-budget, post-phase solo re-execution, and the Go race detector made schedule-deterministic (the scheduler adds no happens-before edge). Exploration, not proof: a clean batch is evidence.",
  design_ref="DESIGN.md §3 C19, §2.3",
  note="Preemption happens only at instrumented points (function entries, loop heads, package-variable accesses, lock and file-system calls); solo references come from the same instrumented build; TSan history is bounded; write modes excluded.",
  technique="deterministic simulation: seeded token scheduler over instrumented code + schedule-deterministic race detector + solo-equality oracle"),
 "C13": dict(
  text="Seeded search over API-call histories (orders of Compile/Run/re-Compile on one long-lived process, rand and map-order seeds varied) against the fresh-process outcome of each call, and over generated compiler sessions (definitions + commands sharing them) against a definition-store reference model with three executable readings per command (named, textually expanded, inline subroutine). Exploration: evidence, not proof.",
  design_ref="DESIGN.md §3 C13",
  note="References are produced by the same instrumented code in fresh processes / as sibling readings, so the model never says what a pattern matches, only that naming, sequencing and history do not change it; runs whose readings exceed the step budget are discarded.",
  technique="deterministic simulation of call histories and compiler sessions: seeded history search + fresh-process reference + reference-model readings"),
 "C07": dict(
  text="Seeded search over file sizes around the 4096-byte window and over seek/read histories in the engine's own alphabet against a byte-slice model of the file, plus RunFiles-vs-Run equality for corpus programs on contents planted across 2048-multiples, on the real file system with every file system call logged. Exploration.",
  design_ref="DESIGN.md §3 C07",
  note="Kernel short reads are not injected (the property quantifies over contents and histories); strings.Reader defines 'the same bytes in memory'.",
  technique="deterministic simulation: seeded seek/read histories on a simulated-world file vs byte-slice reference model; file-vs-memory differential"),
 "C06": dict(
  text="Seeded search over scratch worlds (1-4 files, stale .vored, duplicates in the list, empty and window-sized files) and histories of 1-6 RunFiles ops in modes NOTHING/NEW/OVERWRITE, checked after every op against an in-memory file-system model advanced by a reference splice, plus a write-set rule over the op's logged file-system calls (catches write-then-restore and identical rewrites that a snapshot cannot see). Exploration.",
  design_ref="DESIGN.md §3 C06",
  note="Match lists for the reference splice come from the code's own Run on the model content (C07/C13 checked separately); files.Writer writes are observed at open time; cross-file order of the returned list is not asserted.",
  technique="deterministic simulation: seeded op histories on a simulated-world disk vs in-memory FS reference model + syscall-trace write-set invariant"),
 "C18": dict(
  text="Seeded search over histories of invocations of the real (instrumented) vore binary as a child process inside a scratch world, drawn from the documented flag cross product plus the invalid combinations, against a CLI reference model: flag specification x in-process library result on the pre-state x C06's file-system delta model; judged on exit status, exactly-one-JSON-document on stdout and in the named files, the world snapshot, and the child's logged file-system calls. Exploration.",
  design_ref="DESIGN.md §3 C18",
  note="The expected document is encoding/json of the library's matches; the model under-constrains where the documentation is silent (-no-output, zero matches, order across files); glob subtleties are left to C20.",
  technique="deterministic simulation of the process boundary: seeded invocation histories of the real binary on a simulated-world disk vs CLI reference model + syscall-trace write-set invariant"),
 "C20": dict(
  text="Seeded search over directory trees materialised on the real file system (the simulated world) and relative/absolute star patterns derived from them, compared with a segment-wise reference glob over the model tree: exact set, no duplicates, regular files only. Claimed with the weakest simulation justification of the eight: the function is read-only and history-free; what the simulator owns is the world and the working directory. Exploration.",
  design_ref="DESIGN.md §3 C20",
  note="Reference is a recursive per-segment star matcher; star-only directory segments and ./.. are excluded as in the property; the exhaustive pattern x name enumeration of the quantifier is not built (that is bounded enumeration, not simulation).",
  technique="deterministic simulation of the directory-tree world: seeded trees and patterns vs segment-wise reference glob model"),
 "C08": dict(
  text="Seeded fault injection on the source byte stream: valid corpus programs are delivered to the compiler through a simulated io.Reader (chunking, EOF at k, read error at k, bounded polling after EOF), Compile(string) or CompileFile(real file) after loss/duplication/swap of segments and byte corruption; oracle = returns within a calibrated step budget, exactly one of (program, error), error prints, no panic, no nil holes in the returned program. Thorough adds EOF at every byte of every corpus program. Exploration.",
  design_ref="DESIGN.md §3 C08",
  note="The base is always a valid corpus program; purely generative inputs (token soups, random bytes, grammar-generated programs) are not claimed. Digit runs are never lengthened. Step/heap budgets are far above legitimate compiles of corpus-sized sources.",
  technique="deterministic simulation with fault injection on the source stream: seeded EOF/loss/duplication/reorder/corruption/read-error plans + totality oracle"),
 "C09": dict(
  text="Seeded fault injection on the searched byte stream (EOF at byte k, emptied, corrupted, duplicated segments) delivered through Run(string), RunFiles(file) and RunFiles(directory), for corpus programs and for programs that survived a fault on their own source; oracle = the call returns a list, no panic of any kind (plus a calibrated step budget for unmodified programs on prefixes of their own text). Thorough adds every cut position of every corpus pair x 3 deliveries. Claimed for the stream-facing half of the property only. Exploration.",
  design_ref="DESIGN.md §3 C09",
  note="The 'all accepted programs' half of the quantifier is only sampled (corpus + fault-surviving programs without loops/subroutines); a crash that needs a particular program shape on a friendly input is input generation and is not hunted here.",
  technique="deterministic simulation with fault injection on the searched stream: seeded EOF/corruption/duplication plans x delivery paths + no-crash oracle"),
}

NA = {
 "C01": "pure function of (program text, input bytes): no schedule, clock, fault, history or environment in it; deciding it needs a reference matcher over generated inputs, which is input generation, not simulation",
 "C02": "pure function of (program, input): a stale capture is an aliasing bug inside one deterministic run; nothing to schedule or fault",
 "C03": "pure invariants of one deterministic run's output over programs x inputs; the file-backed variant of the same fields is covered by C07's equality",
 "C04": "metamorphic relation between deterministic runs of sibling programs on one input; nothing to simulate",
 "C05": "pure function of (replace command, match); no environment in it",
 "C10": "the stated quantifier is exhaustive enumeration of a bounded program x input space (model checking); there are no faults whose cessation would open a liveness window (every simulated op still runs under a step budget)",
 "C11": "pure finite operator/coercion table",
 "C12": "pure finite typing table",
 "C14": "pure differential property against another regex engine over generated regexes x texts",
 "C15": "pure metamorphic property over source layouts",
 "C16": "pure, exhaustive over bytes and spellings of string literals",
 "C17": "pure serialisation (encoding/json sorts map keys, so even map order cannot reach the output); the CLI's delivery of that JSON is C18",
}
# properties planned but whose check is not built yet stay out of both lists
PENDING = {}

checks = []
for pid in sorted(CLAIMED):
    c = CLAIMED[pid]
    checks.append({
        "property_id": pid,
        "quick_cmd": f"./check.sh {pid} quick",
        "thorough_cmd": f"./check.sh {pid} thorough",
        "evidence_file": f"evidence/{pid}.json",
        "replay_cmd_template": f"./check.sh {pid} --replay {{path}}",
        "engine": "voresim",
        "level_claimed": {"category": "exploration", "text": c["text"], "design_ref": c["design_ref"]},
        "level_note": c["note"],
        "technique": c["technique"],
    })
na = [{"property_id": k, "reason": v} for k, v in sorted({**NA, **PENDING}.items())]
m = {
 "version": 1,
 "setup_cmd": "./setup.sh",
 "hooks": {
  "guard": "verif",
  "enable": "no hook is committed to /repo: every check rsyncs /repo's working tree to a tmpfs scratch copy, tools/instrument rewrites that copy (yield points, package-variable access events, file-system call wrappers, map-order ownership, mutex wrappers -> verif/simrt), and the harness and CLI are built from the copy in workspace mode",
  "baseline_off_cmd": "for m in . libvore libvore/algo libvore/ast libvore/bytecode libvore/ds libvore/engine libvore/files libvore/testutils; do (cd /repo/$m && go test -json -vet=off -count=1 -timeout 25m ./...); done",
  "source_commits": [],
  "add_only": True,
 },
 "engines": [{
  "name": "voresim", "path": "harness/ + simrt/ + tools/instrument/",
  "serves_properties": sorted(CLAIMED),
  "kind_free_text": "deterministic simulator: AST instrumenter + race-detector-invisible token scheduler + seeded tape (one integer decides workload, world, faults, schedule) + tape shrinker + fresh-process replay",
 }],
 "checks": checks,
 "not_applicable": na,
 "notes": "Exit codes of every command: 0 held, 1 VIOLATION line printed (after the replay file reproduced in a fresh process), 2 build/infrastructure trouble. VERIF_SEED selects the seeds of all runs.",
}
json.dump(m, open(os.path.join(V, "MANIFEST.json"), "w"), indent=1)
print("MANIFEST.json:", len(checks), "checks,", len(na), "not applicable")
