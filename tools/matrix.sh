#!/bin/bash
# usage: tools/matrix.sh [tier] [name ...]  — runs every check against every seeded change,
# each in its own scratch worktree of /repo (VERIF_REPO), 4 at a time; writes seeded/<name>/checks.log
TIER="${1:-quick}"; shift
NAMES="${*:-$(ls /verif/seeded)}"
one() {
  n="$1"; W=/tmp/mx/$n; rm -rf $W; mkdir -p /tmp/mx
  git -C /repo worktree add -q --detach $W HEAD || return
  if git -C $W apply /verif/seeded/$n/patch.diff; then
    : > /verif/seeded/$n/checks.log
    for id in C06 C07 C08 C09 C13 C18 C19 C20; do
      out=$(VERIF_REPO=$W VORESIM_WORKERS=6 VORESIM_EVIDENCE_DIR=/tmp/mx/ev-$n VORESIM_REPLAY_DIR=/tmp/mx/rp-$n /verif/check.sh $id $TIER 2>&1); rc=$?
      { echo "== $id rc=$rc $(echo "$out" | grep -E '^OK|^INFRA' | head -1 | cut -c1-160)"; echo "$out" | grep -E "oracle=" | head -4; } >> /verif/seeded/$n/checks.log
    done
  else echo "patch does not apply" > /verif/seeded/$n/checks.log; fi
  git -C /repo worktree remove --force $W; rm -rf /tmp/mx/ev-$n /tmp/mx/rp-$n
  echo "$n: $(grep -c 'rc=1' /verif/seeded/$n/checks.log) checks fire: $(grep 'rc=1' /verif/seeded/$n/checks.log | awk '{print $2}' | tr '\n' ' ') $(grep -c 'rc=2' /verif/seeded/$n/checks.log | sed 's/^0$//;s/^[1-9].*/(&  exit-2)/')"
}
export -f one; export TIER
echo $NAMES | tr ' ' '\n' | xargs -P 4 -I{} bash -c 'one {}'
