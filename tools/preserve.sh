#!/bin/bash
# usage: tools/preserve.sh <patch.diff> <name> [README]   — a behaviour-PRESERVING change: every quick check must stay silent (exit 0).
# Confirms suite passes, runs all checks against a scratch worktree with the patch; stores under /verif/preserving/<name>/
P="$1"; NAME="$2"; README="${3:-}"
D=/verif/preserving/$NAME; mkdir -p $D; cp "$P" $D/patch.diff; [ -n "$README" ] && [ -f "$README" ] && cp "$README" $D/README.md
W=/tmp/px/$NAME; rm -rf $W; mkdir -p /tmp/px
git -C /repo worktree add -q --detach $W HEAD || exit 2
git -C $W apply $D/patch.diff || { echo "$NAME: patch does not apply"; git -C /repo worktree remove --force $W; exit 2; }
( unset GOFLAGS; export GOPROXY=off GOSUMDB=off GOTOOLCHAIN=local; ok=1; for m in . libvore libvore/algo libvore/ast libvore/bytecode libvore/ds libvore/engine libvore/files libvore/testutils; do (cd $W/$m && go test -vet=off -count=1 ./... >/dev/null 2>&1) || ok=0; done; echo "suite_ok=$ok" ) > $D/checks.log
for id in C06 C07 C08 C09 C13 C18 C19 C20; do
  out=$(VERIF_REPO=$W VORESIM_WORKERS=${VORESIM_WORKERS:-8} VORESIM_EVIDENCE_DIR=/tmp/px/ev-$NAME VORESIM_REPLAY_DIR=$D/replays /verif/check.sh $id quick 2>&1); rc=$?
  { echo "== $id rc=$rc $(echo "$out" | grep -E '^OK|^INFRA' | head -1 | cut -c1-200)"; [ $rc != 0 ] && echo "$out" | grep -vE "^voresim|phase" | head -30; } >> $D/checks.log
done
git -C /repo worktree remove --force $W; rm -rf /tmp/px/ev-$NAME
echo "$NAME: $(head -1 $D/checks.log) silent=$(grep -c 'rc=0' $D/checks.log)/8 $(grep -E 'rc=[12]' $D/checks.log | awk '{print $2 $3}' | tr '\n' ' ')"
