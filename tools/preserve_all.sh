#!/bin/bash
# re-runs every stored behaviour-preserving refactoring against all quick checks (3 at a time)
cd /verif
ls preserving | VORESIM_WORKERS=5 xargs -P 3 -I{} bash -c '/verif/tools/preserve.sh /verif/preserving/{}/patch.diff {} 2>&1 | tail -1'
