#!/bin/bash
# usage: tools/keep2.sh <worktree> <mutant dir> <name> [race]   — confirm + store (no checks; run tools/matrix.sh afterwards)
WT="$1"; M="$2"; NAME="$3"; RACE="${4:-}"
D=/verif/seeded/$NAME; mkdir -p $D
/verif/tools/eval_mutant.sh "$WT" "$M" $RACE > $D/confirm.log 2>&1
echo "$NAME: $(tail -1 $D/confirm.log)"
cp "$M/patch.diff" $D/patch.diff
find "$M" \( -name '*_test.go' -o -name '*_test.go.txt' \) -exec cp {} $D/ \; 2>/dev/null
for f in $D/*_test.go; do [ -f "$f" ] && mv "$f" "$f.txt"; done
[ -f "$M/README.md" ] && cp "$M/README.md" $D/README.md
true
