#!/bin/bash
# usage: tools/keep_mutant.sh <worktree> <mutant dir> <name> <property> [race]
# evaluates (eval_mutant.sh), runs all quick checks (try_patch.sh), stores under /verif/seeded/<name>/
WT="$1"; M="$2"; NAME="$3"; PROP="$4"; RACE="${5:-}"
D=/verif/seeded/$NAME; mkdir -p $D
/verif/tools/eval_mutant.sh "$WT" "$M" $RACE > $D/confirm.log 2>&1
tail -1 $D/confirm.log
grep -q "=> CONFIRMED" $D/confirm.log || { echo "not confirmed; see $D/confirm.log"; }
cp "$M/patch.diff" $D/patch.diff
find "$M" -name '*_test.go' -exec cp {} $D/ \; 2>/dev/null
for f in $D/*_test.go; do [ -f "$f" ] && mv "$f" "${f%.go}.go.txt"; done
[ -f "$M/README.md" ] && cp "$M/README.md" $D/README.md
/verif/tools/try_patch.sh $D/patch.diff quick > $D/checks.log 2>&1
grep "^== " $D/checks.log | cut -c1-120
