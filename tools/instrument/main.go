// instrument rewrites a scratch copy of jmeaster30/vore in place so that the
// simulator owns its nondeterminism (see DESIGN.md §2.2):
//
//   - simrt.Yield(site) at every function entry and loop head,
//   - simrt.Access(site, "pkg.var", write) before every statement whose header
//     touches a package-level variable of a vore package,
//   - os.* / (*os.File).* calls -> simrt pass-through wrappers that log,
//   - `for k, v := range map` -> iteration over simrt.MapKeys(map),
//   - sync.Mutex / RWMutex / Once operations -> simrt lock wrappers.
//
// It refuses (exit 2) constructs whose nondeterminism the simulator would not
// own. Usage: instrument <scratch-repo-root> <inventory.json>
package main

import (
	"bytes"
	"encoding/json"
	"fmt"
	"go/ast"
	"go/build"
	"go/format"
	"go/importer"
	"go/parser"
	"go/token"
	"go/types"
	"os"
	"path/filepath"
	"sort"
	"strconv"
	"strings"
)

const prefix = "github.com/jmeaster30/vore"

type pkgInfo struct {
	path  string
	dir   string
	pkg   *types.Package
	info  *types.Info
	files []*ast.File
	names []string
}

type loader struct {
	root string
	fset *token.FileSet
	std  types.Importer
	pkgs map[string]*pkgInfo
}

func (m *loader) Import(path string) (*types.Package, error) {
	if path != prefix && !strings.HasPrefix(path, prefix+"/") {
		return m.std.Import(path)
	}
	if p, ok := m.pkgs[path]; ok {
		return p.pkg, nil
	}
	dir := filepath.Join(m.root, strings.TrimPrefix(strings.TrimPrefix(path, prefix), "/"))
	return m.load(path, dir)
}

func (m *loader) load(path, dir string) (*types.Package, error) {
	ents, err := os.ReadDir(dir)
	if err != nil {
		return nil, err
	}
	pi := &pkgInfo{path: path, dir: dir}
	for _, e := range ents {
		n := e.Name()
		if e.IsDir() || !strings.HasSuffix(n, ".go") || strings.HasSuffix(n, "_test.go") {
			continue
		}
		if ok, err := build.Default.MatchFile(dir, n); err == nil && !ok {
			continue // excluded by a build constraint or a GOOS/GOARCH file name suffix
		}
		f, err := parser.ParseFile(m.fset, filepath.Join(dir, n), nil, parser.ParseComments)
		if err != nil {
			return nil, err
		}
		pi.files = append(pi.files, f)
		pi.names = append(pi.names, filepath.Join(dir, n))
	}
	pi.info = &types.Info{Defs: map[*ast.Ident]types.Object{}, Uses: map[*ast.Ident]types.Object{}, Selections: map[*ast.SelectorExpr]*types.Selection{}, Types: map[ast.Expr]types.TypeAndValue{}}
	conf := types.Config{Importer: m}
	p, err := conf.Check(path, m.fset, pi.files, pi.info)
	if err != nil {
		return nil, err
	}
	pi.pkg = p
	m.pkgs[path] = pi
	return p, nil
}

type site struct {
	ID   int    `json:"id"`
	Kind string `json:"kind"`
	Pos  string `json:"pos"`
	Func string `json:"func,omitempty"`
	Loc  string `json:"loc,omitempty"`
	W    bool   `json:"write,omitempty"`
}

type inventory struct {
	Sites       []site         `json:"sites"`
	PkgVars     []string       `json:"package_vars"`
	Rewrites    map[string]int `json:"rewrites"`
	Warnings    []string       `json:"warnings"`
	Unmodelled  []string       `json:"unmodelled_sync"`
	GoStmts     []string       `json:"go_statements"`
	Unsupported []string       `json:"unsupported"`
}

var inv = inventory{Rewrites: map[string]int{}}
var curFunc string

func (m *loader) rel(p token.Pos) string {
	pos := m.fset.Position(p)
	r, err := filepath.Rel(m.root, pos.Filename)
	if err != nil {
		r = pos.Filename
	}
	return r + ":" + strconv.Itoa(pos.Line)
}

func newSite(kind, pos, loc string, w bool) int {
	id := len(inv.Sites) + 1
	inv.Sites = append(inv.Sites, site{id, kind, pos, curFunc, loc, w})
	return id
}

func simCall(name string, args ...ast.Expr) *ast.CallExpr {
	return &ast.CallExpr{Fun: &ast.SelectorExpr{X: ast.NewIdent("simrt"), Sel: ast.NewIdent(name)}, Args: args}
}

func yieldStmt(id int) ast.Stmt {
	return &ast.ExprStmt{X: simCall("Yield", &ast.BasicLit{Kind: token.INT, Value: strconv.Itoa(id)})}
}

func accessStmt(id int, loc string, w bool) ast.Stmt {
	ws := "false"
	if w {
		ws = "true"
	}
	return &ast.ExprStmt{X: simCall("Access", &ast.BasicLit{Kind: token.INT, Value: strconv.Itoa(id)}, &ast.BasicLit{Kind: token.STRING, Value: strconv.Quote(loc)}, ast.NewIdent(ws))}
}

func (m *loader) isPkgVar(pi *pkgInfo, id *ast.Ident) (string, bool) {
	obj := pi.info.Uses[id]
	v, ok := obj.(*types.Var)
	if !ok || v.IsField() || v.Pkg() == nil {
		return "", false
	}
	pp := v.Pkg().Path()
	if v.Parent() == v.Pkg().Scope() && (pp == prefix || strings.HasPrefix(pp, prefix+"/")) {
		return v.Pkg().Name() + "." + v.Name(), true
	}
	return "", false
}

// headerAccesses lists the package-level variables used directly in the
// "header" of stmt (not in nested blocks) and which of them are written.
func (m *loader) headerAccesses(pi *pkgInfo, s ast.Stmt) (locs []string, writes map[string]bool) {
	writes = map[string]bool{}
	seen := map[string]bool{}
	add := func(loc string, w bool) {
		if !seen[loc] {
			seen[loc] = true
			locs = append(locs, loc)
		}
		if w {
			writes[loc] = true
		}
	}
	var exprs []ast.Expr
	var lhs []ast.Expr
	switch st := s.(type) {
	case *ast.AssignStmt:
		exprs = append(exprs, st.Rhs...)
		lhs = st.Lhs
		if st.Tok != token.ASSIGN && st.Tok != token.DEFINE {
			exprs = append(exprs, st.Lhs...)
		}
	case *ast.IncDecStmt:
		lhs = []ast.Expr{st.X}
		exprs = append(exprs, st.X)
	case *ast.ExprStmt:
		exprs = append(exprs, st.X)
		// delete(m, k) on a package-level map is a write
		if call, ok := st.X.(*ast.CallExpr); ok {
			if id, ok := call.Fun.(*ast.Ident); ok && id.Name == "delete" && len(call.Args) > 0 {
				lhs = append(lhs, call.Args[0])
			}
		}
	case *ast.ReturnStmt:
		exprs = append(exprs, st.Results...)
	case *ast.IfStmt:
		if st.Init != nil {
			l, w := m.headerAccesses(pi, st.Init)
			for _, x := range l {
				add(x, w[x])
			}
		}
		exprs = append(exprs, st.Cond)
	case *ast.ForStmt:
		if st.Init != nil {
			l, w := m.headerAccesses(pi, st.Init)
			for _, x := range l {
				add(x, w[x])
			}
		}
		if st.Cond != nil {
			exprs = append(exprs, st.Cond)
		}
		if st.Post != nil {
			l, w := m.headerAccesses(pi, st.Post)
			for _, x := range l {
				add(x, w[x])
			}
		}
	case *ast.RangeStmt:
		exprs = append(exprs, st.X)
		if st.Tok == token.ASSIGN {
			if st.Key != nil {
				lhs = append(lhs, st.Key)
			}
			if st.Value != nil {
				lhs = append(lhs, st.Value)
			}
		}
	case *ast.SwitchStmt:
		if st.Init != nil {
			l, w := m.headerAccesses(pi, st.Init)
			for _, x := range l {
				add(x, w[x])
			}
		}
		if st.Tag != nil {
			exprs = append(exprs, st.Tag)
		}
	case *ast.TypeSwitchStmt:
		ast.Inspect(st.Assign, func(n ast.Node) bool {
			if e, ok := n.(ast.Expr); ok {
				exprs = append(exprs, e)
				return false
			}
			return true
		})
	case *ast.DeclStmt, *ast.GoStmt, *ast.DeferStmt, *ast.SendStmt:
		ast.Inspect(s, func(n ast.Node) bool {
			if _, ok := n.(*ast.FuncLit); ok {
				return false
			}
			if e, ok := n.(ast.Expr); ok {
				exprs = append(exprs, e)
				return false
			}
			return true
		})
	}
	for _, l := range lhs {
		// root identifier of a selector / index chain
		e := l
	loop:
		for {
			switch x := e.(type) {
			case *ast.SelectorExpr:
				// pkg.Var is a selector whose X is a package name
				if id, ok := x.X.(*ast.Ident); ok {
					if _, isPkg := pi.info.Uses[id].(*types.PkgName); isPkg {
						e = x.Sel
						break loop
					}
				}
				e = x.X
			case *ast.ParenExpr:
				e = x.X
			case *ast.IndexExpr:
				exprs = append(exprs, x.Index)
				e = x.X
			case *ast.StarExpr:
				e = x.X
			default:
				break loop
			}
		}
		if id, ok := e.(*ast.Ident); ok {
			if loc, ok := m.isPkgVar(pi, id); ok {
				add(loc, true)
			}
		} else {
			exprs = append(exprs, l)
		}
	}
	for _, e := range exprs {
		ast.Inspect(e, func(n ast.Node) bool {
			if _, ok := n.(*ast.FuncLit); ok {
				return false
			}
			if id, ok := n.(*ast.Ident); ok {
				if loc, ok := m.isPkgVar(pi, id); ok {
					add(loc, false)
				}
			}
			return true
		})
	}
	return
}

// isSyncWrapperStmt: is the statement (or deferred call) nothing but a call to one of the
// simrt lock / once / wait-group wrappers the sync calls were rewritten to?
func isSyncWrapperStmt(s ast.Stmt) bool {
	var call *ast.CallExpr
	switch st := s.(type) {
	case *ast.ExprStmt:
		call, _ = st.X.(*ast.CallExpr)
	case *ast.DeferStmt:
		call = st.Call
	}
	if call == nil {
		return false
	}
	sel, ok := call.Fun.(*ast.SelectorExpr)
	if !ok {
		return false
	}
	if id, ok := sel.X.(*ast.Ident); !ok || id.Name != "simrt" {
		return false
	}
	switch sel.Sel.Name {
	case "Lock", "Unlock", "RWLock", "RWUnlock", "RWRLock", "RWRUnlock", "WGAdd", "WGDone", "WGWait":
		return true
	}
	return false
}

// headerHasAtomic: does the statement itself (not its nested blocks or
// function literals) call into sync/atomic?
func (m *loader) headerHasAtomic(pi *pkgInfo, s ast.Stmt) bool {
	found := false
	ast.Inspect(s, func(n ast.Node) bool {
		if found {
			return false
		}
		switch x := n.(type) {
		case *ast.FuncLit:
			return false
		case *ast.BlockStmt:
			return ast.Node(x) == ast.Node(s)
		case *ast.CallExpr:
			if sel, ok := x.Fun.(*ast.SelectorExpr); ok {
				if fn, ok := pi.info.Uses[sel.Sel].(*types.Func); ok && fn.Pkg() != nil && fn.Pkg().Path() == "sync/atomic" {
					found = true
				}
			}
		}
		return true
	})
	return found
}

func (m *loader) instrList(pi *pkgInfo, list []ast.Stmt) []ast.Stmt {
	var out []ast.Stmt
	for _, s := range list {
		inner := s
		for {
			if ls, ok := inner.(*ast.LabeledStmt); ok {
				inner = ls.Stmt
				continue
			}
			break
		}
		locs, writes := m.headerAccesses(pi, inner)
		if isSyncWrapperStmt(inner) {
			// taking or releasing a lock that lives inside a package-level struct reads no protected data
			locs = nil
		}
		for _, loc := range locs {
			id := newSite("access", m.rel(s.Pos()), loc, writes[loc])
			out = append(out, accessStmt(id, loc, writes[loc]))
		}
		if m.headerHasAtomic(pi, inner) {
			// an atomic operation is a point where another task may be scheduled
			loc := "atomic@" + m.rel(s.Pos())
			id := newSite("atomic", m.rel(s.Pos()), loc, false)
			out = append(out, accessStmt(id, loc, false))
		}
		m.instrStmt(pi, s)
		out = append(out, s)
	}
	return out
}

func (m *loader) instrBlock(pi *pkgInfo, b *ast.BlockStmt, kind string) {
	if b == nil {
		return
	}
	pos := m.rel(b.Pos())
	b.List = m.instrList(pi, b.List)
	if kind != "" {
		id := newSite(kind, pos, "", false)
		b.List = append([]ast.Stmt{yieldStmt(id)}, b.List...)
	}
}

func (m *loader) instrStmt(pi *pkgInfo, s ast.Stmt) {
	switch st := s.(type) {
	case *ast.BlockStmt:
		m.instrBlock(pi, st, "")
	case *ast.IfStmt:
		m.instrBlock(pi, st.Body, "")
		if st.Else != nil {
			m.instrStmt(pi, st.Else)
		}
	case *ast.ForStmt:
		m.instrBlock(pi, st.Body, "loop")
	case *ast.RangeStmt:
		m.instrBlock(pi, st.Body, "loop")
	case *ast.SwitchStmt:
		for _, c := range st.Body.List {
			cc := c.(*ast.CaseClause)
			cc.Body = m.instrList(pi, cc.Body)
		}
	case *ast.TypeSwitchStmt:
		for _, c := range st.Body.List {
			cc := c.(*ast.CaseClause)
			cc.Body = m.instrList(pi, cc.Body)
		}
	case *ast.SelectStmt:
		for _, c := range st.Body.List {
			cc := c.(*ast.CommClause)
			cc.Body = m.instrList(pi, cc.Body)
		}
	case *ast.LabeledStmt:
		m.instrStmt(pi, st.Stmt)
	}
	// function literals inside the statement
	ast.Inspect(s, func(n ast.Node) bool {
		if fl, ok := n.(*ast.FuncLit); ok {
			m.instrBlock(pi, fl.Body, "func")
			return false
		}
		switch n.(type) {
		case *ast.BlockStmt:
			return n == s // nested blocks are handled above
		}
		return true
	})
}

var osFuncs = map[string]string{
	"Open": "OsOpen", "OpenFile": "OsOpenFile", "Create": "OsCreate", "ReadFile": "OsReadFile",
	"WriteFile": "OsWriteFile", "ReadDir": "OsReadDir", "Stat": "OsStat", "Lstat": "OsLstat",
	"Rename": "OsRename", "Remove": "OsRemove", "RemoveAll": "OsRemoveAll", "Truncate": "OsTruncate",
	"Mkdir": "OsMkdir", "MkdirAll": "OsMkdirAll", "Getwd": "OsGetwd", "Chdir": "OsChdir",
}
var fileMethods = map[string]string{
	"Read": "FileRead", "ReadAt": "FileReadAt", "Write": "FileWrite", "WriteAt": "FileWriteAt",
	"WriteString": "FileWriteString", "Seek": "FileSeek", "Close": "FileClose", "Stat": "FileStat",
	"Truncate": "FileTruncate", "Sync": "FileSync",
}
var mutexMethods = map[string]string{"Lock": "Lock", "Unlock": "Unlock", "TryLock": "TryLock"}
var rwMethods = map[string]string{"Lock": "RWLock", "Unlock": "RWUnlock", "RLock": "RWRLock", "RUnlock": "RWRUnlock"}

func (m *loader) unsupported(pos token.Pos, what string) {
	inv.Unsupported = append(inv.Unsupported, m.rel(pos)+": "+what)
}

// syncRecv builds the expression of type *sync.X for a method call sel on a
// (possibly embedded) sync.X value.
func (m *loader) syncRecv(pi *pkgInfo, sel *ast.SelectorExpr) ast.Expr {
	selection := pi.info.Selections[sel]
	if selection == nil {
		return nil
	}
	expr := sel.X
	typ := selection.Recv()
	idx := selection.Index()
	for _, i := range idx[:len(idx)-1] {
		if p, ok := typ.Underlying().(*types.Pointer); ok {
			typ = p.Elem()
		}
		st, ok := typ.Underlying().(*types.Struct)
		if !ok {
			return nil
		}
		f := st.Field(i)
		expr = &ast.SelectorExpr{X: expr, Sel: ast.NewIdent(f.Name())}
		typ = f.Type()
	}
	if _, ok := typ.Underlying().(*types.Pointer); ok {
		return expr
	}
	return &ast.UnaryExpr{Op: token.AND, X: expr}
}

func (m *loader) rewriteCalls(pi *pkgInfo, f *ast.File) {
	ast.Inspect(f, func(n ast.Node) bool {
		switch x := n.(type) {
		case *ast.GoStmt:
			inv.GoStmts = append(inv.GoStmts, m.rel(x.Pos()))
		case *ast.SendStmt:
			m.unsupported(x.Pos(), "channel send")
		case *ast.SelectStmt:
			m.unsupported(x.Pos(), "select")
		case *ast.ChanType:
			m.unsupported(x.Pos(), "channel type")
		case *ast.UnaryExpr:
			if x.Op == token.ARROW {
				m.unsupported(x.Pos(), "channel receive")
			}
		}
		call, ok := n.(*ast.CallExpr)
		if !ok {
			return true
		}
		sel, ok := call.Fun.(*ast.SelectorExpr)
		if !ok {
			return true
		}
		fn, ok := pi.info.Uses[sel.Sel].(*types.Func)
		if !ok || fn.Pkg() == nil {
			return true
		}
		sig := fn.Type().(*types.Signature)
		switch fn.Pkg().Path() {
		case "os":
			if sig.Recv() == nil {
				if w, ok := osFuncs[fn.Name()]; ok {
					call.Fun = &ast.SelectorExpr{X: ast.NewIdent("simrt"), Sel: ast.NewIdent(w)}
					inv.Rewrites["os."+fn.Name()]++
				}
			} else if strings.HasSuffix(sig.Recv().Type().String(), "os.File") {
				if w, ok := fileMethods[fn.Name()]; ok {
					// only when the static receiver type is *os.File
					if tv, ok := pi.info.Types[sel.X]; ok && tv.Type.String() == "*os.File" {
						call.Fun = &ast.SelectorExpr{X: ast.NewIdent("simrt"), Sel: ast.NewIdent(w)}
						call.Args = append([]ast.Expr{sel.X}, call.Args...)
						inv.Rewrites["(*os.File)."+fn.Name()]++
					}
				}
			}
		case "sync":
			if sig.Recv() == nil {
				m.unsupported(call.Pos(), "sync."+fn.Name())
				return true
			}
			rt := sig.Recv().Type().String()
			var w string
			switch {
			case strings.HasSuffix(rt, "sync.Mutex"):
				w = mutexMethods[fn.Name()]
			case strings.HasSuffix(rt, "sync.RWMutex"):
				w = rwMethods[fn.Name()]
			case strings.HasSuffix(rt, "sync.Once") && fn.Name() == "Do":
				w = "OnceDo"
			case strings.HasSuffix(rt, "sync.WaitGroup"):
				w = map[string]string{"Add": "WGAdd", "Done": "WGDone", "Wait": "WGWait"}[fn.Name()]
			}
			if w == "" && (strings.HasSuffix(rt, "sync.Map") || strings.HasSuffix(rt, "sync.Pool")) {
				// never block; internally synchronised; the own HB monitor does not model their edges
				inv.Unmodelled = append(inv.Unmodelled, m.rel(call.Pos())+": "+rt+"."+fn.Name())
				return true
			}
			if w == "" {
				m.unsupported(call.Pos(), "sync: "+rt+"."+fn.Name())
				return true
			}
			recv := m.syncRecv(pi, sel)
			if recv == nil {
				m.unsupported(call.Pos(), "sync receiver shape: "+rt+"."+fn.Name())
				return true
			}
			call.Fun = &ast.SelectorExpr{X: ast.NewIdent("simrt"), Sel: ast.NewIdent(w)}
			call.Args = append([]ast.Expr{recv}, call.Args...)
			inv.Rewrites["sync."+w]++
		case "time":
			switch fn.Name() {
			case "Sleep", "After", "Tick", "NewTimer", "NewTicker", "AfterFunc":
				m.unsupported(call.Pos(), "time."+fn.Name())
			default:
				inv.Warnings = append(inv.Warnings, m.rel(call.Pos())+": time."+fn.Name()+" (wall clock read is not owned by the simulator)")
			}
		case "sync/atomic":
			// single indivisible operations: nothing to own, but their edges are not modelled by the own monitor
			inv.Unmodelled = append(inv.Unmodelled, m.rel(call.Pos())+": atomic."+fn.Name())
		case "os/exec", "net", "net/http", "os/signal":
			m.unsupported(call.Pos(), fn.Pkg().Path()+"."+fn.Name())
		}
		return true
	})
	// method values such as mu.Lock passed around are not rewritten: refuse
	ast.Inspect(f, func(n ast.Node) bool {
		sel, ok := n.(*ast.SelectorExpr)
		if !ok {
			return true
		}
		if fn, ok := pi.info.Uses[sel.Sel].(*types.Func); ok && fn.Pkg() != nil && fn.Pkg().Path() == "sync" {
			if sig, ok := fn.Type().(*types.Signature); ok && sig.Recv() != nil {
				rt := sig.Recv().Type().String()
				if strings.HasSuffix(rt, "sync.Map") || strings.HasSuffix(rt, "sync.Pool") {
					return true
				}
			}
			m.unsupported(sel.Pos(), "unrewritten use of sync."+fn.Name())
		}
		return true
	})
}

// rewriteGoStmts turns `go f(a, b)` into
//
//	{ simF, simA0, simA1 := f, a, b; simrt.Go(func() { simF(simA0, simA1) }) }
//
// (function value and arguments are evaluated at the go statement, as Go does)
// and `go func() { ... }()` into simrt.Go(func() { ... }).
func (m *loader) rewriteGoStmts(pi *pkgInfo, f *ast.File) {
	var fix func(list []ast.Stmt) []ast.Stmt
	conv := func(gs *ast.GoStmt) ast.Stmt {
		call := gs.Call
		if fl, ok := call.Fun.(*ast.FuncLit); ok && len(call.Args) == 0 {
			return &ast.ExprStmt{X: simCall("Go", fl)}
		}
		var lhs, rhs []ast.Expr
		fn := ast.NewIdent("simGoF_")
		lhs = append(lhs, fn)
		rhs = append(rhs, call.Fun)
		var args []ast.Expr
		for i, a := range call.Args {
			id := ast.NewIdent("simGoA" + strconv.Itoa(i) + "_")
			lhs = append(lhs, id)
			rhs = append(rhs, a)
			args = append(args, id)
		}
		inner := &ast.CallExpr{Fun: fn, Args: args, Ellipsis: call.Ellipsis}
		if call.Ellipsis.IsValid() {
			inner.Ellipsis = 1
		}
		body := &ast.BlockStmt{List: []ast.Stmt{&ast.ExprStmt{X: inner}}}
		lit := &ast.FuncLit{Type: &ast.FuncType{Params: &ast.FieldList{}}, Body: body}
		return &ast.BlockStmt{List: []ast.Stmt{
			&ast.AssignStmt{Lhs: lhs, Tok: token.DEFINE, Rhs: rhs},
			&ast.ExprStmt{X: simCall("Go", lit)},
		}}
	}
	fix = func(list []ast.Stmt) []ast.Stmt {
		for i, st := range list {
			if gs, ok := st.(*ast.GoStmt); ok {
				list[i] = conv(gs)
				inv.Rewrites["go"]++
			} else if ls, ok := st.(*ast.LabeledStmt); ok {
				if gs, ok := ls.Stmt.(*ast.GoStmt); ok {
					ls.Stmt = conv(gs)
					inv.Rewrites["go"]++
				}
			}
		}
		return list
	}
	ast.Inspect(f, func(n ast.Node) bool {
		switch x := n.(type) {
		case *ast.BlockStmt:
			x.List = fix(x.List)
		case *ast.CaseClause:
			x.Body = fix(x.Body)
		case *ast.CommClause:
			x.Body = fix(x.Body)
		}
		return true
	})
}

func orderedKey(t types.Type) bool {
	b, ok := t.Underlying().(*types.Basic)
	return ok && b.Info()&(types.IsString|types.IsInteger) != 0
}

func (m *loader) rewriteMapRanges(pi *pkgInfo, f *ast.File) {
	ast.Inspect(f, func(n ast.Node) bool {
		rs, ok := n.(*ast.RangeStmt)
		if !ok {
			return true
		}
		tv, ok := pi.info.Types[rs.X]
		if !ok {
			return true
		}
		mt, ok := tv.Type.Underlying().(*types.Map)
		if !ok {
			return true
		}
		if !orderedKey(mt.Key()) {
			inv.Warnings = append(inv.Warnings, m.rel(rs.Pos())+": range over map with unordered key type (iteration order not owned)")
			return true
		}
		if rs.Tok != token.DEFINE {
			inv.Warnings = append(inv.Warnings, m.rel(rs.Pos())+": range over map with '=' form or no variables (iteration order not owned)")
			return true
		}
		// for k, v := range M { body } =>
		// for _, k := range simrt.MapKeys(M) { v, ok := M[k]; if !ok { continue }; body }
		mapExpr := rs.X
		keyIdent, _ := rs.Key.(*ast.Ident)
		if keyIdent == nil || keyIdent.Name == "_" {
			keyIdent = ast.NewIdent("simKey_")
		}
		var pre []ast.Stmt
		if vi, ok := rs.Value.(*ast.Ident); ok && vi.Name != "_" {
			pre = append(pre,
				&ast.AssignStmt{Lhs: []ast.Expr{vi, ast.NewIdent("simOk_")}, Tok: token.DEFINE, Rhs: []ast.Expr{&ast.IndexExpr{X: mapExpr, Index: ast.NewIdent(keyIdent.Name)}}},
				&ast.IfStmt{Cond: &ast.UnaryExpr{Op: token.NOT, X: ast.NewIdent("simOk_")}, Body: &ast.BlockStmt{List: []ast.Stmt{&ast.BranchStmt{Tok: token.CONTINUE}}}},
			)
		} else {
			pre = append(pre,
				&ast.AssignStmt{Lhs: []ast.Expr{ast.NewIdent("_"), ast.NewIdent("simOk_")}, Tok: token.DEFINE, Rhs: []ast.Expr{&ast.IndexExpr{X: mapExpr, Index: ast.NewIdent(keyIdent.Name)}}},
				&ast.IfStmt{Cond: &ast.UnaryExpr{Op: token.NOT, X: ast.NewIdent("simOk_")}, Body: &ast.BlockStmt{List: []ast.Stmt{&ast.BranchStmt{Tok: token.CONTINUE}}}},
			)
		}
		rs.Key = ast.NewIdent("_")
		rs.Value = keyIdent
		rs.X = simCall("MapKeys", mapExpr)
		rs.Body.List = append(pre, rs.Body.List...)
		inv.Rewrites["maprange"]++
		return true
	})
}

func fail(err error) {
	fmt.Fprintln(os.Stderr, "instrument:", err)
	os.Exit(2)
}

func main() {
	if len(os.Args) < 3 {
		fmt.Fprintln(os.Stderr, "usage: instrument <scratch-repo-root> <inventory.json>")
		os.Exit(2)
	}
	root, err := filepath.Abs(os.Args[1])
	if err != nil {
		fail(err)
	}
	fset := token.NewFileSet()
	m := &loader{root: root, fset: fset, std: importer.ForCompiler(fset, "source", nil), pkgs: map[string]*pkgInfo{}}
	if _, err := m.Import(prefix + "/libvore"); err != nil {
		fail(err)
	}
	// the remaining library packages that libvore may not import, and the CLI
	for _, sub := range []string{"algo", "ast", "bytecode", "ds", "engine", "files"} {
		if _, err := os.Stat(filepath.Join(root, "libvore", sub)); err == nil {
			if _, err := m.Import(prefix + "/libvore/" + sub); err != nil {
				fail(err)
			}
		}
	}
	if _, err := m.load(prefix, root); err != nil {
		fail(err)
	}
	var paths []string
	for p := range m.pkgs {
		paths = append(paths, p)
	}
	sort.Strings(paths)
	pkgVars := map[string]bool{}
	for _, p := range paths {
		pi := m.pkgs[p]
		sc := pi.pkg.Scope()
		for _, name := range sc.Names() {
			if v, ok := sc.Lookup(name).(*types.Var); ok {
				pkgVars[pi.pkg.Name()+"."+v.Name()+" "+v.Type().String()] = true
			}
		}
		for i, f := range pi.files {
			for _, im := range f.Imports {
				ip, _ := strconv.Unquote(im.Path.Value)
				switch ip {
				case "unsafe", "os/exec", "net", "net/http", "os/signal", "C":
					m.unsupported(im.Pos(), "import "+ip)
				}
			}
			m.rewriteCalls(pi, f)
			m.rewriteMapRanges(pi, f)
			m.rewriteGoStmts(pi, f)
			for _, d := range f.Decls {
				if fd, ok := d.(*ast.FuncDecl); ok && fd.Body != nil {
					curFunc = pi.pkg.Name() + "." + fd.Name.Name
					if fd.Recv != nil && len(fd.Recv.List) > 0 {
						curFunc = pi.pkg.Name() + "." + types.ExprString(fd.Recv.List[0].Type) + "." + fd.Name.Name
					}
					m.instrBlock(pi, fd.Body, "func")
				}
			}
			curFunc = ""
			imp := &ast.GenDecl{Tok: token.IMPORT, Specs: []ast.Spec{&ast.ImportSpec{Path: &ast.BasicLit{Kind: token.STRING, Value: strconv.Quote("verif/simrt")}}}}
			f.Decls = append([]ast.Decl{imp}, f.Decls...)
			var buf bytes.Buffer
			if err := format.Node(&buf, fset, f); err != nil {
				fail(err)
			}
			src := buf.String() + "\nvar _ = simrt.Yield\n"
			for _, im := range f.Imports {
				ip, _ := strconv.Unquote(im.Path.Value)
				name := ""
				if im.Name != nil {
					name = im.Name.Name
				}
				if name == "_" || name == "." {
					continue
				}
				switch ip {
				case "os":
					if name == "" {
						name = "os"
					}
					src += "var _ " + name + ".FileMode\n"
				case "sync":
					if name == "" {
						name = "sync"
					}
					src += "var _ " + name + ".Mutex\n"
				}
			}
			if err := os.WriteFile(pi.names[i], []byte(src), 0644); err != nil {
				fail(err)
			}
		}
	}
	for v := range pkgVars {
		inv.PkgVars = append(inv.PkgVars, v)
	}
	sort.Strings(inv.PkgVars)
	js, _ := json.MarshalIndent(inv, "", " ")
	if err := os.WriteFile(os.Args[2], js, 0644); err != nil {
		fail(err)
	}
	if len(inv.Unsupported) > 0 {
		fmt.Fprintln(os.Stderr, "instrument: unsupported constructs (the simulator would not own their nondeterminism):")
		for _, u := range inv.Unsupported {
			fmt.Fprintln(os.Stderr, "  "+u)
		}
		os.Exit(3)
	}
	fmt.Printf("instrument: %d sites, rewrites %v, %d warnings\n", len(inv.Sites), inv.Rewrites, len(inv.Warnings))
}
