// harvest extracts (source, text) pairs from vore's own tests and examples
// into corpus/harvested.json. Run once by hand; the result is committed so
// that a later change to the tests cannot hollow out a check.
package main

import (
	"encoding/json"
	"fmt"
	"go/ast"
	"go/parser"
	"go/token"
	"os"
	"path/filepath"
	"strconv"
	"strings"
)

type Item struct {
	Name string `json:"name"`
	Src  string `json:"src"`
	Text string `json:"text"`
	File string `json:"file,omitempty"`
}

func lit(e ast.Expr) (string, bool) {
	switch x := e.(type) {
	case *ast.BasicLit:
		if x.Kind == token.STRING {
			s, err := strconv.Unquote(x.Value)
			return s, err == nil
		}
	case *ast.BinaryExpr:
		if x.Op == token.ADD {
			a, ok1 := lit(x.X)
			b, ok2 := lit(x.Y)
			return a + b, ok1 && ok2
		}
	case *ast.ParenExpr:
		return lit(x.X)
	}
	return "", false
}

func main() {
	repo := os.Args[1]
	var items []Item
	fset := token.NewFileSet()
	tests, _ := filepath.Glob(filepath.Join(repo, "libvore", "*_test.go"))
	for _, tf := range tests {
		f, err := parser.ParseFile(fset, tf, nil, 0)
		if err != nil {
			panic(err)
		}
		for _, d := range f.Decls {
			fd, ok := d.(*ast.FuncDecl)
			if !ok || fd.Body == nil || !strings.HasPrefix(fd.Name.Name, "Test") {
				continue
			}
			var src, text string
			var haveSrc, haveText bool
			ast.Inspect(fd.Body, func(n ast.Node) bool {
				call, ok := n.(*ast.CallExpr)
				if !ok || len(call.Args) == 0 {
					return true
				}
				name := ""
				switch fn := call.Fun.(type) {
				case *ast.Ident:
					name = fn.Name
				case *ast.SelectorExpr:
					name = fn.Sel.Name
				}
				if name == "Compile" && !haveSrc {
					if s, ok := lit(call.Args[0]); ok {
						src, haveSrc = s, true
					}
				}
				if name == "Run" && !haveText {
					if s, ok := lit(call.Args[0]); ok {
						text, haveText = s, true
					}
				}
				return true
			})
			if haveSrc {
				items = append(items, Item{Name: fd.Name.Name, Src: src, Text: text})
			}
		}
	}
	ex, _ := filepath.Glob(filepath.Join(repo, "docs", "examples", "*.vore"))
	ex2, _ := filepath.Glob(filepath.Join(repo, "docs", "examples", "*", "*.vore"))
	for _, e := range append(ex, ex2...) {
		b, _ := os.ReadFile(e)
		rel, _ := filepath.Rel(repo, e)
		it := Item{Name: rel, Src: string(b)}
		txts, _ := filepath.Glob(filepath.Join(filepath.Dir(e), "*.txt"))
		if len(txts) > 0 && filepath.Dir(e) != filepath.Join(repo, "docs", "examples") {
			tb, _ := os.ReadFile(txts[0])
			if len(tb) > 3000 {
				tb = tb[:3000]
			}
			it.Text = string(tb)
			it.File, _ = filepath.Rel(repo, txts[0])
		}
		items = append(items, it)
	}
	js, _ := json.MarshalIndent(items, "", " ")
	os.WriteFile(os.Args[2], js, 0644)
	fmt.Println(len(items), "items")
}
