module verif/harvest

go 1.21
