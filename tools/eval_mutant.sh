#!/bin/bash
# usage: tools/eval_mutant.sh <worktree> <mutant dir (containing patch.diff + a *_test.go demo somewhere)> [race]
# Confirms in the scratch worktree: patch applies, suite passes with it, demo fails with it and passes without.
WT="$1"; M="$2"; RACE="${3:-}"
unset GOFLAGS; export GOPROXY=off GOSUMDB=off GOTOOLCHAIN=local
cd "$WT" || exit 2
git checkout -q -- . ; git clean -fdq -e OUT
DEMO=$(find "$M" -name '*_test.go' -o -name '*_test.go.txt' | head -1)
[ -n "$DEMO" ] || { echo "no demo test found in $M"; }
PKG=$(grep -m1 '^package ' "$DEMO" | awk '{print $2}')
case "$PKG" in libvore|libvore_test) DIR=libvore;; files|files_test) DIR=libvore/files;; main) DIR=.;; engine|engine_test) DIR=libvore/engine;; ast|ast_test) DIR=libvore/ast;; bytecode|bytecode_test) DIR=libvore/bytecode;; *) DIR=libvore;; esac
suite() { local ok=1; for m in . libvore libvore/algo libvore/ast libvore/bytecode libvore/ds libvore/engine libvore/files libvore/testutils; do (cd $WT/$m && go test -vet=off -count=1 ./... >/tmp/suite.$$ 2>&1) || { ok=0; grep -v "^ok\|no test files" /tmp/suite.$$ | head -5; }; done; rm -f /tmp/suite.$$; [ $ok = 1 ]; }
rundemo() { cp "$DEMO" "$WT/$DIR/zz_demo_test.go"; (cd "$WT/$DIR" && timeout 600 go test -vet=off -count=1 $RACE -run 'Test' . 2>&1 | tail -4 | cut -c1-200; exit ${PIPESTATUS[0]}); local rc=$?; rm -f "$WT/$DIR/zz_demo_test.go"; return $rc; }
# keep OUT out of ./... of the root module
[ -f OUT/go.mod ] || printf 'module out\n' > OUT/go.mod
echo "--- clean tree: demo should PASS"; rundemo >/tmp/demo.$$ 2>&1; rc0=$?; tail -2 /tmp/demo.$$
git apply "$M/patch.diff" || { echo "PATCH DOES NOT APPLY"; exit 1; }
echo "--- patched: suite should PASS"; suite; rcs=$?
echo "--- patched: demo should FAIL"; rundemo >/tmp/demo.$$ 2>&1; rc1=$?; tail -3 /tmp/demo.$$
git checkout -q -- . ; git clean -fdq -e OUT; rm -f /tmp/demo.$$
echo "RESULT clean_demo_rc=$rc0 suite_rc=$rcs patched_demo_rc=$rc1  => $([ $rc0 = 0 ] && [ $rcs = 0 ] && [ $rc1 != 0 ] && echo CONFIRMED || echo NOT-CONFIRMED)"
