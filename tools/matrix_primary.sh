#!/bin/bash
# usage: tools/matrix_primary.sh [tier] [name ...] — for every seeded change, runs the check of the property it
# was written against (and any extra checks named in EXTRA_<name>) against a scratch worktree with the patch;
# appends the result to seeded/<name>/checks.log under a "final harness" header. 4 at a time.
TIER="${1:-quick}"; shift
NAMES="${*:-$(ls /verif/seeded)}"
one() {
  n="$1"; W=/tmp/mx/$n; rm -rf $W; mkdir -p /tmp/mx
  id=${n%%-*}
  git -C /repo worktree add -q --detach $W HEAD || return
  L=/verif/seeded/$n/final.log
  case "$n" in C08-c3-*) ids="C08 C19";; C09-c3-*) ids="C09 C06";; *) ids="$id";; esac
  if git -C $W apply /verif/seeded/$n/patch.diff; then
    echo "# final harness ($TIER tier): the check of the property the change was written against (and the check that catches it, where that is another one)" > $L
    for cid in $ids; do
      out=$(VERIF_REPO=$W VORESIM_WORKERS=5 VORESIM_EVIDENCE_DIR=/tmp/mx/ev-$n VORESIM_REPLAY_DIR=/tmp/mx/rp-$n /verif/check.sh $cid $TIER 2>&1); rc=$?
      { echo "== $cid rc=$rc $(echo "$out" | grep -E '^OK|^INFRA' | head -1 | cut -c1-160)"; echo "$out" | grep -E "oracle=" | head -4; } >> $L
      echo "$n: $cid rc=$rc"
    done
  else echo "$n: patch does not apply"; fi
  git -C /repo worktree remove --force $W; rm -rf /tmp/mx/ev-$n /tmp/mx/rp-$n
}
export -f one; export TIER
echo $NAMES | tr ' ' '\n' | xargs -P 4 -I{} bash -c 'one {}'
