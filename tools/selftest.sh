#!/bin/bash
# runs every registered quick check on the current /repo tree; prints one line per check
cd "$(dirname "$0")/.." || exit 2
rc=0
for id in C06 C07 C08 C09 C13 C18 C19 C20; do
  out=$(./check.sh $id quick 2>&1); r=$?
  echo "$id rc=$r $(echo "$out" | grep -E '^OK|^INFRA|^VIOLATION' | head -1 | cut -c1-150)"
  [ $r = 0 ] || rc=1
done
exit $rc
