#!/bin/bash
# usage: tools/try_patch.sh <patch.diff> [tier] [ID ...]   (default: quick, all claimed)
# Applies the patch to /repo, runs the checks, and ALWAYS restores /repo.
P="$1"; TIER="${2:-quick}"; shift 2 2>/dev/null || shift 1
IDS="${*:-C06 C07 C08 C09 C13 C18 C19 C20}"
cd /repo || exit 2
[ -z "$(git status --porcelain)" ] || { echo "/repo is not clean"; exit 2; }
git apply "$P" || { echo "patch does not apply"; exit 2; }
trap 'git -C /repo checkout -- . ; git -C /repo clean -fdq' EXIT
for id in $IDS; do
  out=$(/verif/check.sh $id $TIER 2>&1); rc=$?
  echo "== $id rc=$rc $(echo "$out" | grep -E '^OK|^INFRA' | head -1)"
  echo "$out" | grep -E "VIOLATION|oracle=" | head -6
done
