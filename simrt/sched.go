// Package simrt is the runtime half of the vore simulator.
//
// The instrumenter (tools/instrument) inserts calls to Yield/Access and
// rewrites file-system calls, map ranges and mutex operations of a scratch
// copy of /repo to go through this package. When no simulation is active
// (Active == false, e.g. inside the instrumented CLI or vore's own tests)
// every entry point is a pass-through.
//
// Scheduling: tasks are real goroutines, but exactly one of them holds the
// run token; the others spin in waitToken under GOMAXPROCS(1). The token only
// moves at instrumented points, as dictated by a preemption plan that the
// harness draws from the run's tape. All scheduler state lives in fixed
// arrays and is only touched inside //go:norace functions, so the simulator
// itself never creates a happens-before edge between tasks: a -race build
// therefore reports every pair of conflicting accesses that vore's own
// synchronisation does not order, independent of timing, and replays it.
package simrt

import (
	"runtime"
)

const (
	MaxTasks  = 32
	MaxPlan   = 32
	MaxSwitch = 256
	MaxSites  = 8192
	doneToken = 100
)

// Event kinds a preemption can be attached to.
const (
	KStep = iota
	KAccess
	KIO
	KOp
	nKinds
)

// Abort is the sentinel panic used to unwind an op that the simulator stops
// (step budget, heap budget, deadlock, reader polling). vore has no recover,
// so it reaches the harness' op wrapper.
type Abort struct{ Kind string }

var (
	Active bool
	Steps  uint64

	cur       int
	ntasks    int
	baseTasks int // tasks created by the harness; higher indices were spawned by `go` statements of the code under test
	Spawned   uint64
	token     int = -1
	done      [MaxTasks]bool
	blockedOn [MaxTasks]uintptr
	abortAll  bool
	Deadlock  bool
	LockWaits uint64

	taskSteps [MaxTasks]uint64
	opLimit   [MaxTasks]uint64
	heapLimit uint64

	planN    [nKinds]int
	planAt   [nKinds][MaxPlan]uint64
	planTo   [nKinds][MaxPlan]int
	planPos  [nKinds]int
	Counters [nKinds]uint64
	Landed   [nKinds]uint64

	switchLog  [MaxSwitch]uint64
	NSwitch    int
	SwitchHash uint64

	SiteHits [MaxSites]uint32

	// inOp[t] is true while task t is between OpStart and OpEnd.
	inOp [MaxTasks]bool
	// Overlap is set when a switch happens while the task switched away from
	// and the task switched to are both inside an op.
	Overlap uint64
	// ParseOverlap-style probes are computed by the harness from Probe().
	probeIn  [MaxTasks][4]bool
	ProbeHit [4]uint64
)

// DefaultHeapLimit (bytes of heap in use, sampled every 4096 steps) is armed
// by Reset for every run, so that a runaway allocation ends as an abort of the
// op instead of the kernel killing a worker at a load-dependent moment.
var DefaultHeapLimit uint64

// Plan is one preemption request: when the counter of Kind reaches At,
// hand the token to task To (modulo the runnable set).
type Plan struct {
	Kind int
	At   uint64
	To   int
}

// Reset prepares a run with n tasks and the given plan. Plans must be sorted
// by At within each kind.
//
//go:norace
func Reset(n int, plan []Plan, mapSeed uint64) {
	Active = true
	Steps = 0
	ntasks = n
	baseTasks = n
	Spawned = 0
	cur = 0
	token = -1
	abortAll = false
	Deadlock = false
	LockWaits = 0
	heapLimit = DefaultHeapLimit
	heapKind = "heap-soft"
	softFired = false
	for i := 0; i < MaxTasks; i++ {
		done[i] = false
		blockedOn[i] = 0
		taskSteps[i] = 0
		opLimit[i] = 0
		inOp[i] = false
		for j := 0; j < 4; j++ {
			probeIn[i][j] = false
		}
	}
	for k := 0; k < nKinds; k++ {
		planN[k] = 0
		planPos[k] = 0
		Counters[k] = 0
		Landed[k] = 0
	}
	for _, p := range plan {
		k := p.Kind
		if k < 0 || k >= nKinds || planN[k] >= MaxPlan {
			continue
		}
		planAt[k][planN[k]] = p.At
		planTo[k][planN[k]] = p.To
		planN[k]++
	}
	NSwitch = 0
	SwitchHash = 1469598103934665603
	Overlap = 0
	for j := 0; j < 4; j++ {
		ProbeHit[j] = 0
	}
	nIO = 0
	IODropped = 0
	mapSeedBase = mapSeed
	mapCtr = 0
	nLocks = 0
	nWG = 0
	childAbort = ""
	SimLimit = ""
	for i := range exited {
		exited[i] = false
	}
	monitorReset()
}

// Stop ends the simulated phase: instrumented code becomes pass-through.
//
//go:norace
func Stop() { Active = false }

// ClearSiteHits zeroes the coverage counters (they survive Reset on purpose).
//
//go:norace
func ClearSiteHits() {
	for i := range SiteHits {
		SiteHits[i] = 0
	}
}

// Start gives the token to the first task. Called by the harness' main
// goroutine after the task goroutines were created.
//
//go:norace
func Start(first int) { cur = first; token = first }

// Solo makes the calling goroutine the single task 0 holding the token.
//
//go:norace
func Solo() { cur = 0; token = 0 }

// WaitTurn parks a freshly created task until it is given the token.
//
//go:norace
func WaitTurn(me int) {
	waitToken(me)
}

//go:norace
func waitToken(me int) {
	for token != me {
		if !Active && me >= baseTasks {
			// the simulated phase ended while this spawned task was still parked
			runtime.Goexit()
		}
		runtime.Gosched()
	}
	if abortAll {
		panic(Abort{"deadlock"})
	}
}

// WaitAllDone is called by the harness' main goroutine; it returns when every
// task has called Finish.
//
//go:norace
func WaitAllDone() {
	for token != doneToken {
		runtime.Gosched()
	}
}

// Finish marks the calling task finished and passes the token on.
//
//go:norace
func Finish(me int) {
	done[me] = true
	blockedOn[me] = 0
	next := -1
	for i := 0; i < ntasks; i++ {
		if !done[i] && (blockedOn[i] == 0 || abortAll) {
			next = i
			break
		}
	}
	if next < 0 {
		for i := 0; i < ntasks; i++ {
			if !done[i] {
				// every unfinished task waits for a lock nobody will release
				abortAll = true
				Deadlock = true
				next = i
				break
			}
		}
	}
	if next < 0 {
		cur = doneToken
		token = doneToken
		return
	}
	logSwitch(me, next, 0)
	cur = next
	token = next
}

var Trace bool

//go:norace
func trace(what string, a, b, c int) {
	if Trace {
		println("simrt:", what, a, b, c, "steps", Steps, "ntasks", ntasks)
	}
}

//go:norace
func logSwitch(from, to int, site uint32) {
	trace("switch", from, to, int(site))
	v := Steps<<16 | uint64(from)<<8 | uint64(to)
	if NSwitch < MaxSwitch {
		switchLog[NSwitch] = v
	}
	NSwitch++
	SwitchHash = (SwitchHash ^ v) * 1099511628211
	SwitchHash = (SwitchHash ^ uint64(site)) * 1099511628211
}

// Switches returns a copy of the recorded switch log (step<<16|from<<8|to).
//
//go:norace
func Switches() []uint64 {
	n := NSwitch
	if n > MaxSwitch {
		n = MaxSwitch
	}
	out := make([]uint64, n)
	for i := 0; i < n; i++ {
		out[i] = switchLog[i]
	}
	return out
}

// switchTo hands the token to the first runnable task at or after t.
//
//go:norace
func switchTo(t int, kind int, site uint32) {
	me := cur
	if ntasks <= 1 {
		return
	}
	if t < 0 {
		t = -t
	}
	t = t % ntasks
	for k := 0; k < ntasks; k++ {
		c := (t + k) % ntasks
		if c == me || done[c] || blockedOn[c] != 0 {
			continue
		}
		Landed[kind]++
		if inOp[me] && inOp[c] {
			Overlap++
		}
		for j := 0; j < 4; j++ {
			if probeIn[me][j] && probeIn[c][j] {
				ProbeHit[j]++
			}
		}
		logSwitch(me, c, site)
		cur = c
		token = c
		waitToken(me)
		return
	}
}

//go:norace
func event(kind int, site uint32) {
	Counters[kind]++
	p := planPos[kind]
	if p < planN[kind] && Counters[kind] >= planAt[kind][p] {
		planPos[kind] = p + 1
		switchTo(planTo[kind][p], kind, site)
	}
}

//go:norace
func step(site uint32) {
	Steps++
	me := cur
	taskSteps[me]++
	if site < MaxSites {
		SiteHits[site]++
	}
	if opLimit[me] != 0 && taskSteps[me] > opLimit[me] {
		opLimit[me] = 0
		panic(Abort{"budget"})
	}
	if softFired && inOp[me] {
		panic(Abort{"heap-soft"})
	}
	if childAbort != "" && me < baseTasks {
		k := childAbort
		childAbort = ""
		panic(Abort{k})
	}
	if heapLimit != 0 && inOp[me] && Steps&0xfff == 0 {
		var ms runtime.MemStats
		runtime.ReadMemStats(&ms)
		if ms.HeapAlloc > heapLimit {
			heapLimit = 0
			if heapKind == "heap-soft" {
				softFired = true // the run gives no verdict any more: let its remaining ops end at once
			}
			panic(Abort{heapKind})
		}
	}
	event(KStep, site)
}

// Yield is inserted at every function entry and loop head.
//
//go:norace
func Yield(site uint32) {
	if !Active {
		return
	}
	step(site)
}

// Access is inserted before every statement that touches a package-level
// variable of a vore package.
//
//go:norace
func Access(site uint32, loc string, write bool) {
	if !Active {
		return
	}
	step(site)
	monitorAccess(cur, site, loc, write)
	event(KAccess, site)
}

// OpStart is called by the harness at the start of each op of a task.
// budget is the step budget of the op (0 = none).
//
//go:norace
func OpStart(budget uint64) {
	if !Active {
		return
	}
	me := cur
	if budget != 0 {
		opLimit[me] = taskSteps[me] + budget
	} else {
		opLimit[me] = 0
	}
	event(KOp, 0)
	inOp[me] = true
}

//go:norace
func OpEnd() {
	if !Active {
		return
	}
	if baseTasks == 1 && ntasks > 1 {
		Drain()
	}
	inOp[cur] = false
	opLimit[cur] = 0
	for j := 0; j < 4; j++ {
		probeIn[cur][j] = false
	}
}

// SetHeapLimit arms the heap budget (bytes of live heap), checked every
// 4096 steps.
//
//go:norace
func SetHeapLimit(b uint64) { heapLimit = b; heapKind = "heap" }

// heapKind: "heap" when a check armed the limit itself (the property bounds
// memory), "heap-soft" for the default safety limit, whose only purpose is to
// keep a worker from being killed by the kernel: such a run gives no verdict.
var heapKind = "heap-soft"

// softFired: the safety limit struck in this run.
var softFired bool

// SoftHeapFired reports whether the heap safety limit struck in the current run.
//
//go:norace
func SoftHeapFired() bool { return softFired }

// ProbeEnter/ProbeLeave mark the current task as being inside a region the
// harness cares about (index 0..3); ProbeHit[j] counts switches between two
// tasks that are both inside region j.
//
//go:norace
func ProbeEnter(j int) {
	if Active {
		probeIn[cur][j] = true
	}
}

//go:norace
func ProbeLeave(j int) {
	if Active {
		probeIn[cur][j] = false
	}
}

// Cur returns the index of the task holding the token.
//
//go:norace
func Cur() int { return cur }

// TaskSteps returns the steps executed so far by task t.
//
//go:norace
func TaskSteps(t int) uint64 { return taskSteps[t] }
