package simrt

import (
	"sync"
	"unsafe"
)

const maxLocks = 32

var (
	nLocks    int
	lockPtr   [maxLocks]uintptr
	lockOwner [maxLocks]int
)

//go:norace
func lockIndex(p uintptr) int {
	for i := 0; i < nLocks; i++ {
		if lockPtr[i] == p {
			return i
		}
	}
	if nLocks < maxLocks {
		lockPtr[nLocks] = p
		lockOwner[nLocks] = -1
		nLocks++
		return nLocks - 1
	}
	return -1
}

// blockOn parks the current task until somebody releases lock p.
//
//go:norace
func blockOn(p uintptr, owner int) {
	me := cur
	LockWaits++
	blockedOn[me] = p
	next := -1
	if owner >= 0 && owner != me && !done[owner] && blockedOn[owner] == 0 {
		next = owner
	} else {
		for i := 0; i < ntasks; i++ {
			if i != me && !done[i] && blockedOn[i] == 0 {
				next = i
				break
			}
		}
	}
	if next < 0 {
		// nobody can run: every unfinished task waits for a lock
		blockedOn[me] = 0
		abortAll = true
		Deadlock = true
		panic(Abort{"deadlock"})
	}
	logSwitch(me, next, 0)
	cur = next
	token = next
	waitToken(me)
	blockedOn[me] = 0
}

//go:norace
func release(p uintptr) {
	for i := 0; i < ntasks; i++ {
		if blockedOn[i] == p {
			blockedOn[i] = 0
		}
	}
}

// Lock replaces (*sync.Mutex).Lock in the instrumented copy.
//
//go:norace
func Lock(m *sync.Mutex) {
	if !Active {
		m.Lock()
		return
	}
	step(0)
	event(KAccess, 0)
	p := uintptr(unsafe.Pointer(m))
	for !m.TryLock() {
		li := lockIndex(p)
		owner := -1
		if li >= 0 {
			owner = lockOwner[li]
		}
		blockOn(p, owner)
	}
	if li := lockIndex(p); li >= 0 {
		lockOwner[li] = cur
	}
	monitorAcquire(cur, p)
}

//go:norace
func Unlock(m *sync.Mutex) {
	if !Active {
		m.Unlock()
		return
	}
	p := uintptr(unsafe.Pointer(m))
	monitorRelease(cur, p)
	if li := lockIndex(p); li >= 0 {
		lockOwner[li] = -1
	}
	release(p)
	m.Unlock()
	step(0)
	event(KAccess, 0)
}

//go:norace
func TryLock(m *sync.Mutex) bool {
	if !Active {
		return m.TryLock()
	}
	step(0)
	p := uintptr(unsafe.Pointer(m))
	if m.TryLock() {
		if li := lockIndex(p); li >= 0 {
			lockOwner[li] = cur
		}
		monitorAcquire(cur, p)
		return true
	}
	return false
}

//go:norace
func RWLock(m *sync.RWMutex) {
	if !Active {
		m.Lock()
		return
	}
	step(0)
	event(KAccess, 0)
	p := uintptr(unsafe.Pointer(m))
	for !m.TryLock() {
		blockOn(p, -1)
	}
	monitorAcquire(cur, p)
}

//go:norace
func RWUnlock(m *sync.RWMutex) {
	if !Active {
		m.Unlock()
		return
	}
	p := uintptr(unsafe.Pointer(m))
	monitorRelease(cur, p)
	release(p)
	m.Unlock()
	step(0)
	event(KAccess, 0)
}

//go:norace
func RWRLock(m *sync.RWMutex) {
	if !Active {
		m.RLock()
		return
	}
	step(0)
	event(KAccess, 0)
	p := uintptr(unsafe.Pointer(m))
	for !m.TryRLock() {
		blockOn(p, -1)
	}
	monitorAcquire(cur, p)
}

//go:norace
func RWRUnlock(m *sync.RWMutex) {
	if !Active {
		m.RUnlock()
		return
	}
	p := uintptr(unsafe.Pointer(m))
	monitorRelease(cur, p)
	release(p)
	m.RUnlock()
	step(0)
	event(KAccess, 0)
}

// OnceDo replaces (*sync.Once).Do. A task that arrives while another task is
// inside f waits (hands the token on) exactly like sync.Once blocks.
//
//go:norace
func OnceDo(o *sync.Once, f func()) {
	if !Active {
		o.Do(f)
		return
	}
	step(0)
	event(KAccess, 0)
	p := uintptr(unsafe.Pointer(o))
	li := lockIndex(p)
	for li >= 0 && lockOwner[li] >= 0 && lockOwner[li] != cur {
		blockOn(p, lockOwner[li])
	}
	if li >= 0 {
		lockOwner[li] = cur
	}
	monitorAcquire(cur, p)
	func() {
		defer onceDone(p, li)
		o.Do(f)
	}()
}

//go:norace
func onceDone(p uintptr, li int) {
	monitorRelease(cur, p)
	if li >= 0 {
		lockOwner[li] = -1
	}
	release(p)
}
