//go:build race

package simrt

const MonitorEnabled = false

//go:norace
func monitorReset() {}

//go:norace
func monitorAccess(t int, site uint32, loc string, write bool) {}

//go:norace
func monitorFork(parent, child int) {}

//go:norace
func monitorAcquire(t int, p uintptr) {}

//go:norace
func monitorRelease(t int, p uintptr) {}

func MonitorRaces() []string { return nil }
