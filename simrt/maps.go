package simrt

import "sort"

var (
	mapSeedBase uint64
	mapCtr      uint64
	MapRanges   uint64
)

//go:norace
func nextMapRand() uint64 {
	mapCtr++
	z := mapSeedBase + mapCtr*0x9e3779b97f4a7c15
	z = (z ^ (z >> 30)) * 0xbf58476d1ce4e5b9
	z = (z ^ (z >> 27)) * 0x94d049bb133111eb
	return z ^ (z >> 31)
}

//go:norace
func mapPermuting() bool {
	if Active && mapSeedBase != 0 {
		MapRanges++
		return true
	}
	return false
}

// MapKeys replaces `for k := range m` in the instrumented copy: the keys are
// sorted and then permuted from the run's map-order seed, so map iteration
// order is explored and replayed instead of left to the Go runtime. With seed
// 0 (outside a simulation) the order is the sorted one.
func MapKeys[K ~string | ~int | ~int64 | ~int32 | ~uint64 | ~uint32 | ~uint8 | ~uint | ~int8 | ~int16 | ~uint16, V any](m map[K]V) []K {
	ks := make([]K, 0, len(m))
	for k := range m {
		ks = append(ks, k)
	}
	sort.Slice(ks, func(i, j int) bool { return ks[i] < ks[j] })
	if len(ks) > 1 && mapPermuting() {
		for i := len(ks) - 1; i > 0; i-- {
			j := int(nextMapRand() % uint64(i+1))
			ks[i], ks[j] = ks[j], ks[i]
		}
	}
	return ks
}
