//go:build !race

package simrt

// Own happens-before monitor over Access events (DJIT+-style vector clocks).
// Compiled out of -race builds, where maps would add harness noise and the
// race detector is the oracle anyway.

const MonitorEnabled = true

type locState struct {
	hasW bool
	wT   int
	wC   uint32
	wS   uint32
	rC   [MaxTasks]uint32
	rS   [MaxTasks]uint32
}

var (
	vc      [MaxTasks][MaxTasks]uint32
	locs    map[string]*locState
	lockVC  map[uintptr]*[MaxTasks]uint32
	Races   []string
	raceSet map[string]bool
)

func monitorReset() {
	for i := range vc {
		for j := range vc[i] {
			vc[i][j] = 0
		}
		vc[i][i] = 1
	}
	locs = map[string]*locState{}
	lockVC = map[uintptr]*[MaxTasks]uint32{}
	Races = nil
	raceSet = map[string]bool{}
}

func report(kind, loc string, s1, s2 uint32) {
	if s1 > s2 {
		s1, s2 = s2, s1
	}
	key := kind + " " + loc
	if !raceSet[key] && len(Races) < 16 {
		raceSet[key] = true
		Races = append(Races, key)
	}
	_ = s1
	_ = s2
}

func monitorAccess(t int, site uint32, loc string, write bool) {
	if ntasks <= 1 {
		return
	}
	st := locs[loc]
	if st == nil {
		st = &locState{}
		locs[loc] = st
	}
	if st.hasW && st.wT != t && st.wC > vc[t][st.wT] {
		if write {
			report("W-W", loc, st.wS, site)
		} else {
			report("W-R", loc, st.wS, site)
		}
	}
	if write {
		for u := 0; u < ntasks; u++ {
			if u != t && st.rC[u] > vc[t][u] {
				report("R-W", loc, st.rS[u], site)
			}
		}
		st.hasW = true
		st.wT = t
		st.wC = vc[t][t]
		st.wS = site
		for u := range st.rC {
			st.rC[u] = 0
		}
	} else {
		st.rC[t] = vc[t][t]
		st.rS[t] = site
	}
}

// monitorFork: everything the parent did so far happens before the child.
func monitorFork(parent, child int) {
	last := vc[child][child] // a recycled slot keeps counting where its previous occupant stopped
	for i := 0; i < MaxTasks; i++ {
		vc[child][i] = vc[parent][i]
	}
	if last < vc[parent][child] {
		last = vc[parent][child]
	}
	vc[child][child] = last + 1
	vc[parent][parent]++
}

func monitorAcquire(t int, p uintptr) {
	l := lockVC[p]
	if l == nil {
		return
	}
	for i := 0; i < MaxTasks; i++ {
		if l[i] > vc[t][i] {
			vc[t][i] = l[i]
		}
	}
}

func monitorRelease(t int, p uintptr) {
	l := lockVC[p]
	if l == nil {
		l = &[MaxTasks]uint32{}
		lockVC[p] = l
	}
	for i := 0; i < MaxTasks; i++ {
		if vc[t][i] > l[i] {
			l[i] = vc[t][i]
		}
	}
	vc[t][t]++
}

// MonitorRaces returns the conflicting unordered access pairs seen in this run.
func MonitorRaces() []string { return Races }
