package simrt

import (
	"sync"
	"unsafe"
)

// Goroutines started by the code under test (`go f()` is rewritten to
// simrt.Go) become tasks of the token scheduler: they run only when they hold
// the token, so their interleaving with their parent and with each other is
// decided by the preemption plan, like everything else.

const maxWG = 32

var (
	nWG     int
	wgPtr   [maxWG]uintptr
	wgCount [maxWG]int
)

//go:norace
func wgIndex(p uintptr) int {
	free := -1
	for i := 0; i < nWG; i++ {
		if wgPtr[i] == p {
			return i
		}
		if free < 0 && wgCount[i] <= 0 {
			free = i // a wait group whose count is back at zero needs no entry
		}
	}
	if free >= 0 {
		wgPtr[free] = p
		wgCount[free] = 0
		return free
	}
	if nWG < maxWG {
		wgPtr[nWG] = p
		wgCount[nWG] = 0
		nWG++
		return nWG - 1
	}
	SimLimit = "more than 32 wait groups in use at once"
	panic(Abort{"simulator-limit"})
}

// SimLimit is set when the simulator itself runs out of a fixed resource. The
// harness turns that into an infrastructure error (exit 2), never a violation.
var SimLimit string

//go:norace
func wgCountOf(p uintptr) int {
	for i := 0; i < nWG; i++ {
		if wgPtr[i] == p {
			return wgCount[i]
		}
	}
	return 0
}

//go:norace
func allocTask() int {
	parent := cur
	id := -1
	for i := baseTasks; i < ntasks; i++ {
		if done[i] && exited[i] {
			id = i // recycle the slot of a spawned task that has finished
			break
		}
	}
	if id < 0 {
		if ntasks >= MaxTasks {
			SimLimit = "more than 32 tasks alive at once"
			panic(Abort{"simulator-limit"})
		}
		id = ntasks
		ntasks++
	}
	done[id] = false
	exited[id] = false
	blockedOn[id] = 0
	taskSteps[id] = 0
	inOp[id] = inOp[parent]
	// a spawned task inherits what is left of its parent's step budget
	opLimit[id] = 0
	if opLimit[parent] > taskSteps[parent] {
		opLimit[id] = opLimit[parent] - taskSteps[parent]
	}
	Spawned++
	trace("spawn parent/child", parent, id, 0)
	return id
}

var exited [MaxTasks]bool

// childAbort is set when a spawned task was stopped by the simulator; the
// next step of any other task then aborts too, so that the op is not judged
// on a partial result.
var childAbort string

// Go replaces the go statement in the instrumented copy.
func Go(f func()) {
	if !Active {
		go f()
		return
	}
	id, parent := spawn()
	go func() {
		defer finishSpawned(id)
		defer func() {
			if r := recover(); r != nil {
				a, ok := r.(Abort)
				if !ok {
					panic(r) // a real panic of the code under test: crashes the process, as it would
				}
				noteChildAbort(a.Kind)
			}
		}()
		waitToken(id)
		f()
	}()
	afterSpawn(parent)
}

//go:norace
func spawn() (int, int) {
	parent := cur
	id := allocTask()
	monitorFork(parent, id)
	return id, parent
}

//go:norace
func afterSpawn(parent int) {
	step(0)
	event(KOp, 0)
}

//go:norace
func noteChildAbort(kind string) {
	if childAbort == "" {
		childAbort = kind
	}
}

//go:norace
func finishSpawned(id int) {
	if Active && token == id {
		exited[id] = true
		Finish(id)
	}
}

// Drain lets every task spawned by the code under test run to completion.
// The harness calls it at the end of an op executed by a single task, so that
// goroutines the op left behind are not silently dropped.
//
//go:norace
func Drain() {
	if !Active {
		return
	}
	me := cur
	for guard := 0; guard < 10000; guard++ {
		next := -1
		for i := baseTasks; i < ntasks; i++ {
			if !done[i] && blockedOn[i] == 0 {
				next = i
				break
			}
		}
		if next < 0 {
			return
		}
		logSwitch(me, next, 0)
		cur = next
		token = next
		waitToken(me)
	}
}

// WGAdd / WGDone / WGWait replace the methods of sync.WaitGroup. The real
// wait group is still driven (it gives the race detector its edges); blocking
// is done by handing the token on.
//
//go:norace
func WGAdd(wg *sync.WaitGroup, n int) {
	if Active {
		i := wgIndex(uintptr(unsafe.Pointer(wg)))
		wgCount[i] += n
		trace("wgadd task/slot/count", cur, i, wgCount[i])
	}
	wg.Add(n)
}

//go:norace
func WGDone(wg *sync.WaitGroup) {
	if !Active {
		wg.Done()
		return
	}
	p := uintptr(unsafe.Pointer(wg))
	i := wgIndex(p)
	trace("wgdone task/slot/count", cur, i, wgCount[i])
	wgCount[i]--
	monitorRelease(cur, p)
	wg.Done()
	if wgCount[i] <= 0 {
		release(p)
	}
	step(0)
	event(KAccess, 0)
}

//go:norace
func WGWait(wg *sync.WaitGroup) {
	if !Active {
		wg.Wait()
		return
	}
	step(0)
	event(KAccess, 0)
	p := uintptr(unsafe.Pointer(wg))
	// look the counter up by pointer every time: a slot whose count is back at
	// zero may have been handed to another wait group while this task slept
	for wgCountOf(p) > 0 {
		trace("wgwait blocks task/count", cur, wgCountOf(p), 0)
		blockOn(p, -1)
	}
	wg.Wait()
	monitorAcquire(cur, p)
}
