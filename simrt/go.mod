module verif/simrt

go 1.19
