package simrt

import (
	"io/fs"
	"os"
	"strconv"
	"syscall"
)

// File-system seam. Every wrapper performs the real call on the real file
// system (the per-run scratch world) and appends an event to the run's I/O
// history; inside a simulation it is also a preemption point. In a child
// process (the instrumented CLI) events are appended to $VORESIM_IOLOG.

const MaxIO = 4096

type IOEvent struct {
	Op    string
	Path  string
	Path2 string
	Flags int
	N     int64
	Task  int
}

var (
	ioLog     [MaxIO]IOEvent
	nIO       int
	IODropped int
	ioFd      = -2
)

//go:norace
func logio(op, path, path2 string, flags int, n int64) {
	if Active {
		if nIO < MaxIO {
			ioLog[nIO] = IOEvent{op, path, path2, flags, n, cur}
			nIO++
		} else {
			IODropped++
		}
		step(0)
		event(KIO, 0)
		return
	}
	if ioFd == -2 {
		ioFd = -1
		if p := os.Getenv("VORESIM_IOLOG"); p != "" {
			fd, err := syscall.Open(p, syscall.O_WRONLY|syscall.O_APPEND|syscall.O_CREAT, 0644)
			if err == nil {
				ioFd = fd
			}
		}
	}
	if ioFd >= 0 {
		line := op + "\t" + strconv.Quote(path) + "\t" + strconv.Quote(path2) + "\t" + strconv.Itoa(flags) + "\t" + strconv.FormatInt(n, 10) + "\n"
		syscall.Write(ioFd, []byte(line))
	}
}

// IOEvents returns a copy of this run's I/O history.
//
//go:norace
func IOEvents() []IOEvent {
	out := make([]IOEvent, nIO)
	for i := 0; i < nIO; i++ {
		out[i] = ioLog[i]
	}
	return out
}

// ClearIO empties the I/O history (between ops of one run).
//
//go:norace
func ClearIO() { nIO = 0 }

func OsOpen(name string) (*os.File, error) {
	logio("open", name, "", os.O_RDONLY, 0)
	return os.Open(name)
}
func OsOpenFile(name string, flag int, perm os.FileMode) (*os.File, error) {
	logio("open", name, "", flag, 0)
	return os.OpenFile(name, flag, perm)
}
func OsCreate(name string) (*os.File, error) {
	logio("open", name, "", os.O_RDWR|os.O_CREATE|os.O_TRUNC, 0)
	return os.Create(name)
}
func OsReadFile(name string) ([]byte, error) {
	logio("readfile", name, "", 0, 0)
	return os.ReadFile(name)
}
func OsWriteFile(name string, data []byte, perm os.FileMode) error {
	logio("writefile", name, "", os.O_WRONLY|os.O_CREATE|os.O_TRUNC, int64(len(data)))
	return os.WriteFile(name, data, perm)
}
func OsReadDir(name string) ([]os.DirEntry, error) {
	logio("readdir", name, "", 0, 0)
	return os.ReadDir(name)
}
func OsStat(name string) (fs.FileInfo, error) {
	logio("stat", name, "", 0, 0)
	return os.Stat(name)
}
func OsLstat(name string) (fs.FileInfo, error) {
	logio("stat", name, "", 0, 0)
	return os.Lstat(name)
}
func OsRename(a, b string) error {
	logio("rename", a, b, 0, 0)
	return os.Rename(a, b)
}
func OsRemove(name string) error {
	logio("remove", name, "", 0, 0)
	return os.Remove(name)
}
func OsRemoveAll(name string) error {
	logio("remove", name, "", 1, 0)
	return os.RemoveAll(name)
}
func OsTruncate(name string, size int64) error {
	logio("truncate", name, "", 0, size)
	return os.Truncate(name, size)
}
func OsMkdir(name string, perm os.FileMode) error {
	logio("mkdir", name, "", 0, 0)
	return os.Mkdir(name, perm)
}
func OsMkdirAll(name string, perm os.FileMode) error {
	logio("mkdir", name, "", 1, 0)
	return os.MkdirAll(name, perm)
}
func OsGetwd() (string, error) {
	logio("getwd", "", "", 0, 0)
	return os.Getwd()
}
func OsChdir(dir string) error {
	logio("chdir", dir, "", 0, 0)
	return os.Chdir(dir)
}

func FileRead(f *os.File, p []byte) (int, error) {
	logio("read", f.Name(), "", 0, int64(len(p)))
	return f.Read(p)
}
func FileReadAt(f *os.File, p []byte, o int64) (int, error) {
	logio("readat", f.Name(), "", int(o), int64(len(p)))
	return f.ReadAt(p, o)
}
func FileWrite(f *os.File, p []byte) (int, error) {
	logio("write", f.Name(), "", 0, int64(len(p)))
	return f.Write(p)
}
func FileWriteAt(f *os.File, p []byte, o int64) (int, error) {
	logio("write", f.Name(), "", int(o), int64(len(p)))
	return f.WriteAt(p, o)
}
func FileWriteString(f *os.File, s string) (int, error) {
	logio("write", f.Name(), "", 0, int64(len(s)))
	return f.WriteString(s)
}
func FileSeek(f *os.File, o int64, w int) (int64, error) {
	logio("seek", f.Name(), "", w, o)
	return f.Seek(o, w)
}
func FileClose(f *os.File) error {
	logio("close", f.Name(), "", 0, 0)
	return f.Close()
}
func FileStat(f *os.File) (fs.FileInfo, error) {
	logio("fstat", f.Name(), "", 0, 0)
	return f.Stat()
}
func FileTruncate(f *os.File, n int64) error {
	logio("ftruncate", f.Name(), "", 0, n)
	return f.Truncate(n)
}
func FileSync(f *os.File) error {
	logio("fsync", f.Name(), "", 0, 0)
	return f.Sync()
}
