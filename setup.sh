#!/bin/bash
# Builds the framework's own tools from the sources under /verif (stdlib only,
# offline) and warms the Go build cache with one instrumented build.
set -eu
VERIF="$(cd "$(dirname "$0")" && pwd)"
export GOPROXY=off GOSUMDB=off GOTOOLCHAIN=local GOFLAGS=-mod=mod
mkdir -p "$VERIF/bin" "$VERIF/evidence" "$VERIF/replays"
(cd "$VERIF/tools/instrument" && go build -o "$VERIF/bin/instrument" .)
# warm the cache (plain + race + CLI); failures here are not fatal for setup
VORESIM_BUILD_ONLY=1 "$VERIF/check.sh" C19 quick >/dev/null 2>&1 || true
VORESIM_BUILD_ONLY=1 "$VERIF/check.sh" C18 quick >/dev/null 2>&1 || true
echo "setup ok"
